----------------------------- MODULE MCHashBits ----------------------------
EXTENDS HashBits
\* walking ones over 64 bits, all ones, all zeros, alternating, a few fixed values
Walk(k) == [i \in 1 .. 8 |-> IF (k \div 8) + 1 = i THEN Pow2(7 - (k % 8)) ELSE 0]
MCPatterns == {Walk(k) : k \in 0 .. 63}
              \cup {[i \in 1 .. 8 |-> 255], [i \in 1 .. 8 |-> 0], [i \in 1 .. 8 |-> 170], [i \in 1 .. 8 |-> 85],
                    <<222, 173, 190, 239, 1, 35, 69, 103>>, <<128, 0, 0, 0, 0, 0, 0, 1>>, <<15, 240, 51, 204, 90, 165, 60, 195>>}
=============================================================================
