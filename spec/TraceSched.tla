----------------------------- MODULE TraceSched ----------------------------
(***************************************************************************)
(* Trace validation for the replay of TLC-generated schedules on a real    *)
(* shared sharded-directory node (C17; HamtSched / HamtSchedOps).          *)
(*   sdir    the shard table of the stored directory (independent walker)  *)
(*   sstart  the readers' operations and the warm-up operations that ran   *)
(*           alone before them (with the blocks those loaded)              *)
(*   seg     reader g was released and ran until it parked at a hook       *)
(*           ("loadChild" / "length"; "load" = inside the block store)     *)
(*           or ended ("done", with its answer);                           *)
(*           the blocks it loaded on the way.  "skipped": the schedule     *)
(*           named a reader that had already ended; "blocked": the reader  *)
(*           neither parked nor ended (it waits for another reader)        *)
(*   send    the readers that never returned                               *)
(* The model state (stacks, cache, memo) is advanced by the same Run       *)
(* operator TLC explored; verdicts for C17 depend only on the answers and  *)
(* on completion, the step-by-step agreement with the model (parking       *)
(* point and loads of every segment) is checked beyond the property.       *)
(***************************************************************************)
EXTENDS HamtSchedOps, TLC, Json, IOUtils
LOCAL INSTANCE HamtOps
Trace == ndJsonDeserialize(IOEnv.TRACE)
VARIABLES l, D, ops, miss, stk, cache, memo, acc, pred
tvars == <<l, D, ops, miss, stk, cache, memo, acc, pred>>
SetOf(q) == {q[k] : k \in 1 .. Len(q)}
NoD == [S |-> <<>>, DG |-> <<>>, n |-> 0]
NoPred == [at |-> "none", loads |-> <<>>]
TInit == l = 1 /\ D = NoD /\ ops = <<>> /\ miss = {} /\ stk = <<>> /\ cache = {} /\ memo = {} /\ acc = <<>> /\ pred = NoPred
IsEv(e) == l <= Len(Trace) /\ Trace[l].ev = e /\ l' = l + 1
Cur == Trace[l]

\* the warm-up operations run alone, one after the other
RECURSIVE WarmRun(_, _, _, _, _, _, _)
WarmRun(S, DG, M, w, c, m, lds) == IF w = <<>> THEN [cache |-> c, memo |-> m, loads |-> lds]
                                   ELSE LET r == RunAlone(S, DG, M, StackOf(Head(w)), c, m, lds, NoAcc) IN WarmRun(S, DG, M, Tail(w), r.cache, r.memo, r.loads)

Reset == IsEv("reset") /\ D' = NoD /\ ops' = <<>> /\ miss' = {} /\ stk' = <<>> /\ cache' = {} /\ memo' = {} /\ acc' = <<>> /\ pred' = NoPred
SDir == IsEv("sdir") /\ D' = [S |-> Cur.S, DG |-> Cur.digits, n |-> Cur.n] /\ UNCHANGED <<ops, miss, stk, cache, memo, acc, pred>>
SStart == /\ IsEv("sstart")
          /\ miss' = SetOf(Cur.miss) \cup (IF Cur.lg THEN {0} ELSE {})      \* pseudo-class 0: the readers park inside loads too
          /\ LET w == WarmRun(D.S, D.DG, SetOf(Cur.miss), Cur.warm, {}, {}, <<>>) IN
             /\ cache' = w.cache /\ memo' = w.memo /\ pred' = [at |-> "warm", loads |-> w.loads]
          /\ ops' = Cur.ops
          /\ stk' = [g \in 1 .. Len(Cur.ops) |-> StackOf(Cur.ops[g])]
          /\ acc' = [g \in 1 .. Len(Cur.ops) |-> NoAcc]
          /\ UNCHANGED D
Seg == /\ IsEv("seg")
       /\ IF Cur.at \in {"skipped", "blocked"} \/ Cur.g \notin DOMAIN stk
          THEN pred' = NoPred /\ UNCHANGED <<stk, cache, memo, acc>>
          ELSE LET r == Run(D.S, D.DG, miss, stk[Cur.g], cache, memo, <<>>, acc[Cur.g]) IN
               /\ stk' = [stk EXCEPT ![Cur.g] = r.stk]
               /\ cache' = r.cache /\ memo' = r.memo
               /\ acc' = [acc EXCEPT ![Cur.g] = r.acc]
               /\ pred' = [at |-> r.at, loads |-> r.loads]
       /\ UNCHANGED <<D, ops, miss>>
SEnd == IsEv("send") /\ UNCHANGED <<D, ops, miss, stk, cache, memo, acc, pred>>
Crash == IsEv("crash") /\ UNCHANGED <<D, ops, miss, stk, cache, memo, acc, pred>>
TNext == Reset \/ SDir \/ SStart \/ Seg \/ SEnd \/ Crash \/ (l = Len(Trace) + 1 /\ UNCHANGED tvars)
TraceSpec == TInit /\ [][TNext]_tvars

Has == l > 1
Ev == Trace[l - 1]
IsSeg == Has /\ Ev.ev = "seg"
NoCrash == ~(Has /\ Ev.ev = "crash")
Cond_NoPanic == NoCrash /\ ((Has /\ "e" \in DOMAIN Ev) => Ev.e # "panic")
\* C17: every reader ends, and ends with the answer it has alone
Cond_C17_SchedComplete == (Has /\ Ev.ev = "send") => Ev.hung = <<>>
Answer(op) == Alone(D.S, D.DG, miss, op)
Cond_C17_SchedAnswer == (IsSeg /\ Ev.at = "done" /\ Ev.g \in DOMAIN ops) =>
    LET op == ops[Ev.g]
        a == Answer(op) IN
    CASE op.o = "lookup" -> Ev.r.res = a.res /\ Ev.r.link = a.link
      [] op.o = "iterate" -> Ev.r.res = "ok" /\ Ev.r.errs = a.errs /\ Ev.r.pairs = a.pairs
      [] op.o = "length" -> Ev.r.res = "ok" /\ D.n = CountS(D.S, 1) /\ Ev.r.n = (IF a.res = "lenerr" THEN 0 ELSE D.n)
\* beyond C17: the real readers did, segment by segment, what the model does - parked at the predicted hook (or
\* ended) having loaded exactly the predicted blocks; nothing was skipped, nobody waited for anybody, and the
\* schedule TLC exported was a complete behaviour of the real node too
Cond_X_SchedConform == /\ IsSeg => (Ev.at = pred.at /\ Ev.loads = pred.loads /\ "extra" \notin DOMAIN Ev)
                       /\ (Has /\ Ev.ev = "sstart") => Ev.wloads = pred.loads
                       /\ (Has /\ Ev.ev = "send") => \A g \in DOMAIN stk : stk[g] = <<>>

Chk(nm, c) == c \/ PrintT(<<"VIOL", nm, l - 1>>)
Inv_NoPanic == Chk("Inv_NoPanic", Cond_NoPanic)
Inv_C17_SchedComplete == Chk("Inv_C17_SchedComplete", Cond_C17_SchedComplete)
Inv_C17_SchedAnswer == Chk("Inv_C17_SchedAnswer", Cond_C17_SchedAnswer)
Inv_X_SchedConform == Chk("Inv_X_SchedConform", Cond_X_SchedConform)
Alias == [l |-> l]
=============================================================================
