------------------------------ MODULE HashBits -----------------------------
(***************************************************************************)
(* The two bit-slicing helpers that choose HAMT buckets:                   *)
(*   builder side: data/builder/util.go  hashBits.Slice(offset, width)     *)
(*   reader side:  hamt/util.go          hashBits.Next(i) (stateful)       *)
(* transcribed literally over a hash given as a sequence of bytes, with    *)
(* the byte operations written as integer arithmetic                       *)
(*   mkmask(n) = 2^n - 1,  x & mkmask(n) = x % 2^n,                        *)
(*   x &^ mkmask(n) = x - x % 2^n,  x >> n = x \div 2^n,  x << n = x * 2^n *)
(* and the specification both must meet: the most-significant-bit-first    *)
(* slice of the hash, or "too deep" when fewer than `width` bits remain.   *)
(* If both meet it, builder and reader agree on every bucket choice.       *)
(***************************************************************************)
EXTENDS Integers, Sequences, FiniteSets, TLC
Pow2(n) == IF n = 0 THEN 1 ELSE LET RECURSIVE P(_) P(k) == IF k = 0 THEN 1 ELSE 2 * P(k - 1) IN P(n)
NBits(hb) == Len(hb) * 8

\* ---- builder: slice(offset, width) ----
RECURSIVE BSlice(_, _, _)
BSlice(hb, offset, width) ==
  LET curbi == offset \div 8
      leftb == 8 - (offset % 8)
      curb  == hb[curbi + 1]
  IN  IF width = leftb THEN curb % Pow2(width)
      ELSE IF width < leftb
           THEN LET a == curb % Pow2(leftb)
                    b == a - (a % Pow2(leftb - width))
                IN  b \div Pow2(leftb - width)
           ELSE (curb % Pow2(leftb)) * Pow2(width - leftb) + BSlice(hb, offset + leftb, width - leftb)
BuilderSlice(hb, offset, width) ==
  IF offset + width > NBits(hb) THEN [err |-> TRUE, v |-> 0] ELSE [err |-> FALSE, v |-> BSlice(hb, offset, width)]

\* ---- reader: next(i) with the consumed-bits state ----
RECURSIVE RNext(_, _, _)
RNext(hb, consumed, i) ==
  LET curbi == consumed \div 8
      leftb == 8 - (consumed % 8)
      curb  == hb[curbi + 1]
  IN  IF i = leftb THEN curb % Pow2(i)
      ELSE IF i < leftb
           THEN LET a == curb % Pow2(leftb)
                    b == a - (a % Pow2(leftb - i))
                IN  b \div Pow2(leftb - i)
           ELSE (curb % Pow2(leftb)) * Pow2(i - leftb) + RNext(hb, consumed + leftb, i - leftb)
ReaderNext(hb, consumed, i) ==
  IF consumed + i > NBits(hb) THEN [err |-> TRUE, v |-> 0] ELSE [err |-> FALSE, v |-> RNext(hb, consumed, i)]

\* ---- specification: MSB-first slice, bit by bit ----
BitAt(hb, k) == (hb[(k \div 8) + 1] \div Pow2(7 - (k % 8))) % 2       \* k-th bit, 0 = most significant of byte 1
RECURSIVE SpecBits(_, _, _)
SpecBits(hb, offset, width) == IF width = 0 THEN 0
                               ELSE BitAt(hb, offset) * Pow2(width - 1) + SpecBits(hb, offset + 1, width - 1)
SpecSlice(hb, offset, width) ==
  IF offset + width > NBits(hb) THEN [err |-> TRUE, v |-> 0] ELSE [err |-> FALSE, v |-> SpecBits(hb, offset, width)]

\* ---- a sweep machine: every pattern x offset x width ----
CONSTANTS Patterns, MaxWidth
VARIABLES pat, off, w
Init == pat \in Patterns /\ off \in 0 .. 64 /\ w \in 1 .. MaxWidth
Next == UNCHANGED <<pat, off, w>>
Spec == Init /\ [][Next]_<<pat, off, w>>
Inv_C02_BuilderIsSpec == BuilderSlice(pat, off, w) = SpecSlice(pat, off, w)
Inv_C02_ReaderIsSpec == ReaderNext(pat, off, w) = SpecSlice(pat, off, w)
Inv_C02_Agree == BuilderSlice(pat, off, w) = ReaderNext(pat, off, w)
=============================================================================
