------------------------------ MODULE HamtConc -----------------------------
(***************************************************************************)
(* Several goroutines reading one shared reified HAMT node (C17).          *)
(*                                                                         *)
(* The node has two child shards X and Y; its memoised state is the shard  *)
(* cache (one slot per child: cacheX, cacheY) and the memoised length.     *)
(* Every operation is a straight-line program of micro-steps transcribed   *)
(* from hamt/shardeddir.go (loadChild, length):                            *)
(*   loadChild(c) = Lock; read cache[c]; Unlock;                           *)
(*                  on a miss: load the block (no shared access);          *)
(*                             Lock; write cache[c]; Unlock                *)
(*   Lookup(c)    = loadChild(c)                                           *)
(*   Iterate      = loadChild(X); loadChild(Y)                             *)
(*   Length       = Lock; read len; Unlock; on a miss:                     *)
(*                  loadChild(X); loadChild(Y); Lock; write len; Unlock    *)
(* With Locked = TRUE the Lock/Unlock steps acquire a mutex (the repaired  *)
(* code); with Locked = FALSE they are no-ops (the code at the pinned      *)
(* commit, F6).  A data race is two goroutines about to access the same    *)
(* location, at least one of them writing, without a common lock.          *)
(***************************************************************************)
EXTENDS Integers, Sequences, FiniteSets, TLC
CONSTANTS G, Locked, Collect
VARIABLES ops, warm, prog, miss, holder, cache, len, res
vars == <<ops, warm, prog, miss, holder, cache, len, res>>

OpKinds == {"lookupX", "lookupX2", "lookupY", "iterate", "length"}
WarmStates == {"cold", "halfwarm", "warm"}
NEntries == 4

LoadChild(c) == <<[t |-> "lock"], [t |-> "rd", loc |-> c], [t |-> "unlock"], [t |-> "load", loc |-> c],
                  [t |-> "lock"], [t |-> "wr", loc |-> c], [t |-> "unlock"]>>
Program(op) == CASE op \in {"lookupX", "lookupX2"} -> LoadChild("X") \o <<[t |-> "ret"]>>
                 [] op = "lookupY" -> LoadChild("Y") \o <<[t |-> "ret"]>>
                 [] op = "iterate" -> LoadChild("X") \o LoadChild("Y") \o <<[t |-> "ret"]>>
                 [] op = "length" -> <<[t |-> "lock"], [t |-> "rdlen"], [t |-> "unlock"]>> \o LoadChild("X") \o LoadChild("Y")
                                     \o <<[t |-> "lock"], [t |-> "wrlen"], [t |-> "unlock"], [t |-> "ret"]>>

Init == /\ ops \in [G -> OpKinds] /\ warm \in WarmStates
        /\ prog = [g \in G |-> Program(ops[g])]
        /\ miss = [g \in G |-> [X |-> FALSE, Y |-> FALSE, len |-> FALSE]]
        /\ holder = "none"
        /\ cache = [X |-> warm \in {"halfwarm", "warm"}, Y |-> warm = "warm"]
        /\ len = IF warm = "warm" THEN NEntries ELSE -1
        /\ res = [g \in G |-> "pending"]

Cur(g) == Head(prog[g])
Adv(g) == prog' = [prog EXCEPT ![g] = Tail(@)]
\* skip the rest of a loadChild / length body after a hit
SkipTo(g, n) == prog' = [prog EXCEPT ![g] = SubSeq(@, n + 1, Len(@))]

Step(g) ==
  /\ Len(prog[g]) > 0
  /\ LET s == Cur(g) IN
     CASE s.t = "lock" ->
            /\ (Locked => holder = "none")
            /\ holder' = IF Locked THEN g ELSE holder
            /\ Adv(g) /\ UNCHANGED <<ops, warm, miss, cache, len, res>>
       [] s.t = "unlock" ->
            /\ holder' = IF Locked THEN "none" ELSE holder
            /\ IF Len(prog[g]) >= 2 /\ prog[g][2].t = "load" /\ ~miss[g][prog[g][2].loc]
               THEN SkipTo(g, 5)                       \* cache hit: skip load, lock, write, unlock
               ELSE IF Len(prog[g]) >= 2 /\ prog[g][2].t = "rd" /\ prog[g][1].t = "unlock" /\ FALSE THEN Adv(g)
               ELSE Adv(g)
            /\ UNCHANGED <<ops, warm, miss, cache, len, res>>
       [] s.t = "rd" ->
            /\ miss' = [miss EXCEPT ![g][s.loc] = ~cache[s.loc]]
            /\ Adv(g) /\ UNCHANGED <<ops, warm, holder, cache, len, res>>
       [] s.t = "load" -> Adv(g) /\ UNCHANGED <<ops, warm, miss, holder, cache, len, res>>
       [] s.t = "wr" ->
            /\ cache' = [cache EXCEPT ![s.loc] = TRUE]
            /\ Adv(g) /\ UNCHANGED <<ops, warm, miss, holder, len, res>>
       [] s.t = "rdlen" ->
            /\ IF len # -1
               THEN /\ prog' = [prog EXCEPT ![g] = <<[t |-> "unlock"], [t |-> "ret"]>>]   \* memo hit
                    /\ UNCHANGED miss
               ELSE /\ Adv(g) /\ miss' = [miss EXCEPT ![g].len = TRUE]
            /\ UNCHANGED <<ops, warm, holder, cache, len, res>>
       [] s.t = "wrlen" ->
            /\ len' = NEntries
            /\ Adv(g) /\ UNCHANGED <<ops, warm, miss, holder, cache, res>>
       [] s.t = "ret" ->
            /\ res' = [res EXCEPT ![g] = IF ops[g] = "length" THEN "n" ELSE "ok"]
            /\ Adv(g) /\ UNCHANGED <<ops, warm, miss, holder, cache, len>>

Next == \E g \in G : Step(g)
Spec == Init /\ [][Next]_vars /\ WF_vars(Next)

\* ---- data races ----
Access(g) == IF Len(prog[g]) = 0 THEN [loc |-> "none", w |-> FALSE]
             ELSE LET s == Cur(g) IN
                  CASE s.t = "rd" -> [loc |-> s.loc, w |-> FALSE] [] s.t = "wr" -> [loc |-> s.loc, w |-> TRUE]
                    [] s.t = "rdlen" -> [loc |-> "len", w |-> FALSE] [] s.t = "wrlen" -> [loc |-> "len", w |-> TRUE]
                    [] OTHER -> [loc |-> "none", w |-> FALSE]
Race == \E g, h \in G : g # h /\ Access(g).loc # "none" /\ Access(g).loc = Access(h).loc /\ (Access(g).w \/ Access(h).w)
Scenario == [ops |-> ops, warm |-> warm]
\* Collect = TRUE: report every racy scenario and go on (used on the unlocked model to select scenarios)
Inv_C17_NoRace == ~Race \/ (Collect /\ PrintT(<<"RACY", ToString(Scenario)>>))
Inv_C17_MutexOK == Locked => \A g, h \in G : (g # h /\ Access(g).loc # "none" /\ Access(h).loc # "none") => FALSE
Inv_C17_Results == \A g \in G : res[g] # "pending" => res[g] = (IF ops[g] = "length" THEN "n" ELSE "ok")
Inv_C17_MemoMonotone == (len # -1 => len = NEntries)
Terminates == <>(\A g \in G : Len(prog[g]) = 0)
=============================================================================
