SPECIFICATION Spec
CONSTANTS
  MaxChildLinks = 1
  MaxRootLinks = 2
  Digits <- MCDigits
INVARIANTS Inv_X_FoundIsYielded Inv_X_LengthIsPairs Inv_X_FailedLengthHasError Inv_X_Total
CHECK_DEADLOCK FALSE
