---------------------------- MODULE TraceFixture ---------------------------
EXTENDS FixtureOps, TLC, Json, IOUtils
Trace == ndJsonDeserialize(IOEnv.TRACE)
VARIABLES l
vars == <<l>>
Init == l = 1
IsEv(e) == l <= Len(Trace) /\ Trace[l].ev = e /\ l' = l + 1
Next == IsEv("crash") \/ IsEv("reset") \/ IsEv("fixture") \/ (l = Len(Trace) + 1 /\ UNCHANGED l)
TraceSpec == Init /\ [][Next]_vars
Has == l > 1
Ev == Trace[l - 1]
IsF == Has /\ Ev.ev = "fixture"
NoCrash == ~(l > 1 /\ Trace[l - 1].ev = "crash")   \* the code under test took the whole harness process down (driver: mark_crash)
Cond_NoPanic == NoCrash /\ (IsF => Ev.e = "nil")
Cond_Harness_Walk == IsF => Ev.walkOK
Cond_C19_Same == (IsF /\ Ev.e = "nil" /\ Ev.walkOK) => SameEntries(Ev.desc, Ev.stored)
Cond_C19_Siblings == (IsF /\ Ev.e = "nil") => SiblingsOK(Ev.desc)
Cond_C19_Paths == (IsF /\ Ev.e = "nil" /\ Ev.composed) => PathsComposed(Ev.desc)
\* the library's own read-back helper (testutil.ToDirEntryFrom from the returned root, over a link system with the
\* UnixFS reifier) yields the described tree, and its comparison helper accepts the pair in both directions
Cond_C19_ReadBack == (IsF /\ Ev.e = "nil") =>
    \* ("skip": an earlier read-back of the same process never returned - that case is the violation - and the
    \* helpers are not called again in that process)
    /\ Ev.rb \in {"ok", "skip"}
    /\ Ev.rb = "ok" => /\ SameEntries(Ev.desc, Ev.tde)
                       /\ (Ev.composed \/ Ev.gen = "file") => (SamePaths(Ev.desc, Ev.tde) /\ Ev.cmp \in {"pass", "skip"})
\* beyond C19: the comparison helper rejects a description with one thing wrong
Cond_X_CompareDetects == (IsF /\ Ev.e = "nil" /\ Ev.rb = "ok") => \A k \in 1 .. Len(Ev.neg) : Ev.neg[k] = "fail"
Chk(nm, c) == c \/ PrintT(<<"VIOL", nm, l - 1>>)
Inv_NoPanic == Chk("Inv_NoPanic", Cond_NoPanic)
Inv_Harness_Walk == Chk("Inv_Harness_Walk", Cond_Harness_Walk)
Inv_C19_Same == Chk("Inv_C19_Same", Cond_C19_Same)
Inv_C19_Siblings == Chk("Inv_C19_Siblings", Cond_C19_Siblings)
Inv_C19_Paths == Chk("Inv_C19_Paths", Cond_C19_Paths)
Inv_C19_ReadBack == Chk("Inv_C19_ReadBack", Cond_C19_ReadBack)
Inv_X_CompareDetects == Chk("Inv_X_CompareDetects", Cond_X_CompareDetects)
Alias == [l |-> l]
=============================================================================
