------------------------------ MODULE TraceDir -----------------------------
(***************************************************************************)
(* Trace validation for the directory family (plain directories, generic   *)
(* link maps, HAMT-sharded directories written by this library or by the   *)
(* reference implementation).                                              *)
(*                                                                         *)
(* A case starts with a "dir" line carrying the independent walker's view  *)
(* of the stored DAG - the shard table S (pre-order) or the plain link     *)
(* list - the logical entry set the harness supplied (expect), the digit   *)
(* path of every universe name, the unavailable blocks and the classes of  *)
(* the entries' own target blocks.  Every later line is one API call on    *)
(* the reified node with its result and the blocks requested meanwhile.    *)
(* Expectations are computed by the operators of HamtOps - the same ones   *)
(* the model-checked machines use - evaluated on the real structure.       *)
(***************************************************************************)
EXTENDS HamtOps, TLC, Json, IOUtils

Trace == ndJsonDeserialize(IOEnv.TRACE)

VARIABLES l, D,        \* D: the current "dir" line
          firstReq,    \* distinct block classes in order of first request
          nIter,       \* number of pairs of the latest fault-free iteration (-1: none)
          yielded      \* pairs of the latest fault-free map iteration
vars == <<l, D, firstReq, nIter, yielded>>

NoDir == [kind |-> "none"]
Init == l = 1 /\ D = NoDir /\ firstReq = <<>> /\ nIter = -1 /\ yielded = <<>>
IsEv(e) == l <= Len(Trace) /\ Trace[l].ev = e /\ l' = l + 1
E == Trace[l]

RECURSIVE AddReq(_, _)
AddReq(fr, loads) ==
  IF Len(loads) = 0 THEN fr
  ELSE IF \E k \in 1 .. Len(fr) : fr[k] = Head(loads) THEN AddReq(fr, Tail(loads))
       ELSE AddReq(Append(fr, Head(loads)), Tail(loads))

Reset == IsEv("reset") /\ D' = NoDir /\ firstReq' = <<>> /\ nIter' = -1 /\ yielded' = <<>>
Dir   == IsEv("dir") /\ D' = E /\ UNCHANGED <<firstReq, nIter, yielded>>
OpenNode == IsEv("opennode") /\ firstReq' = AddReq(firstReq, E.loads) /\ nIter' = -1 /\ yielded' = <<>> /\ UNCHANGED D
Lookup == IsEv("lookup") /\ firstReq' = AddReq(firstReq, E.loads) /\ UNCHANGED <<D, nIter, yielded>>
Iter == /\ IsEv("iter") /\ firstReq' = AddReq(firstReq, E.loads)
        /\ nIter' = IF E.failed = <<>> /\ E.res = "done" THEN Len(E.pairs) ELSE -1
        /\ yielded' = IF E.failed = <<>> /\ E.res = "done" THEN E.pairs ELSE yielded
        /\ UNCHANGED D
Length == IsEv("length") /\ firstReq' = AddReq(firstReq, E.loads) /\ UNCHANGED <<D, nIter, yielded>>
\* large directories (hundreds to thousands of entries, sizes straddling the
\* auto-shard threshold): compared entry by entry in Go, summarised in one line
Big == IsEv("big") /\ UNCHANGED <<D, firstReq, nIter, yielded>>
\* verdict of the Go race detector over a batch of concurrent scenarios (C17)
RaceCheck == IsEv("racecheck") /\ UNCHANGED <<D, firstReq, nIter, yielded>>
\* the environment makes every block available again; the node keeps its cache
Heal == IsEv("heal") /\ D' = [D EXCEPT !.missing = <<>>] /\ UNCHANGED <<firstReq, nIter, yielded>>
Done == l = Len(Trace) + 1 /\ UNCHANGED vars
Crash == IsEv("crash") /\ UNCHANGED <<D, firstReq, nIter, yielded>>
Next == Crash \/ Reset \/ Dir \/ OpenNode \/ Lookup \/ Iter \/ Length \/ Big \/ RaceCheck \/ Heal \/ Done
TraceSpec == Init /\ [][Next]_vars

(***************************************************************************)
Has == l > 1
Ev == Trace[l - 1]
IsHamt == D.kind = "hamt"
IsPlain == D.kind = "plain"
Miss == {D.missing[k] : k \in 1 .. Len(D.missing)}
NoFault == Ev.failed = <<>>
SeqSet(s) == {s[k] : k \in 1 .. Len(s)}
ShardC == {D.S[i].c : i \in 1 .. Len(D.S)}
PreShards == [i \in 1 .. (Len(D.S) - 1) |-> D.S[i + 1].c]
EntryC == SeqSet(D.entryC)
ExpNames == {D.expect[k][1] : k \in 1 .. Len(D.expect)}
ExpLink(n) == D.expect[CHOOSE k \in 1 .. Len(D.expect) : D.expect[k][1] = n][2]
IsPrefixSeq(s, t) == Len(s) <= Len(t) /\ \A k \in 1 .. Len(s) : s[k] = t[k]
NoDup(s) == \A i, j \in 1 .. Len(s) : i # j => s[i] # s[j]

\* expected lookup on the stored structure
HL(n) == LookupS(D.S, 1, D.digits[n], 0, n)
PathC(n) == {D.S[HL(n).path[k]].c : k \in 2 .. Len(HL(n).path)}
Crosses(n) == PathC(n) \cap Miss # {}
\* plain: first link whose name (absent = empty) equals the key
PlainFirst(n) == LET ks == {k \in 1 .. Len(D.plain) : D.plain[k].name = n}
                 IN  IF ks = {} THEN 0 ELSE CHOOSE k \in ks : \A j \in ks : k <= j
FoundRes(how) == "found"
NotFoundRes(how) == IF how = "native" THEN "nil" ELSE "notfound"
ErrRes(how) == IF how = "native" THEN "nil" ELSE "err"

Cond_Harness_WF == (Has /\ Ev.ev = "dir" /\ Ev.kind = "hamt") => ShardTableWF(Ev.S)
NoCrash == ~(l > 1 /\ Trace[l - 1].ev = "crash")   \* the code under test took the whole harness process down (driver: mark_crash)
Cond_NoPanic == NoCrash /\ ((Has /\ "e" \in DOMAIN Ev) => (Ev.e # "panic" /\ Ev.e # "budget"))

\* ---- C02: the reified directory is the map of its entries ----
Cond_C02_Stored == (Has /\ Ev.ev = "dir" /\ Ev.builder # "raw") =>
    IF Ev.kind = "unwalkable" THEN FALSE      \* what the builder stored is not a readable directory at all
    ELSE IF Ev.kind = "hamt"
    THEN LET it == IterS(Ev.S, 1, {}).pairs IN
         /\ NoDup([k \in 1 .. Len(it) |-> it[k][1]])
         /\ SeqSet(it) = SeqSet(Ev.expect)
    ELSE /\ Len(Ev.plain) = Len(Ev.expect)
         /\ {<<Ev.plain[k].name, Ev.plain[k].link>> : k \in 1 .. Len(Ev.plain)} = SeqSet(Ev.expect)
Cond_C02_Open == (Has /\ Ev.ev = "opennode" /\ NoFault /\ D.builder # "raw") => (Ev.e = "nil" /\ Ev.kind = "map")
Cond_C02_Lookup == (Has /\ Ev.ev = "lookup" /\ D.builder # "raw" /\ NoFault /\ Ev.name > 0 /\ ~(D.mode = "conc" /\ Miss # {})) =>
    IF Ev.name \in ExpNames
    THEN Ev.res = "found" /\ Ev.link = ExpLink(Ev.name)
    ELSE Ev.res = NotFoundRes(Ev.how)
Cond_C02_Iter == (Has /\ Ev.ev = "iter" /\ D.builder # "raw" /\ NoFault /\ Miss = {}) =>
    /\ Ev.res = "done" /\ Ev.errs = 0
    /\ Len(Ev.pairs) = Len(D.expect)
    /\ {<<Ev.pairs[k][1], Ev.pairs[k][2]>> : k \in 1 .. Len(Ev.pairs)} = SeqSet(D.expect)
Cond_C02_Length == (Has /\ Ev.ev = "length" /\ D.builder # "raw" /\ NoFault /\ Miss = {}) =>
    Ev.n = Len(D.expect)

Cond_C02_Big == (Has /\ Ev.ev = "big") =>
    /\ Ev.e = "nil" /\ Ev.lookupOK /\ Ev.missOK /\ Ev.iterOK /\ Ev.lenOK
    /\ Ev.builder \in {"dir", "quick"} => (Ev.sharded <=> Ev.estimate > 262144)
    /\ Ev.builder \in {"sharded", "boxo"} => Ev.sharded

\* ---- C08: reference-written and own HAMTs are the canonical trie of their entries ----
Cond_C08_Canon == (Has /\ Ev.ev = "dir" /\ Ev.kind = "hamt" /\ Ev.builder \in {"sharded", "boxo"}) =>
    TrieOf(Ev.S, 1) = Canon({Ev.expect[k][1] : k \in 1 .. Len(Ev.expect)}, 0, Ev.digits)
Cond_C08_RefEq == (Has /\ Ev.ev = "dir" /\ "refEq" \in DOMAIN Ev) => Ev.refEq

\* ---- structure-level expectations (used by C05/C12/C15/C20) ----
Cond_C05_Lookup == (Has /\ Ev.ev = "lookup") =>
    /\ SeqSet(Ev.loads) \cap EntryC = {}
    /\ IsHamt /\ Ev.name > 0 => SeqSet(Ev.loads) \subseteq PathC(Ev.name)
    /\ IsPlain => Ev.loads = <<>>
Cond_C05_Open == (Has /\ Ev.ev = "opennode" /\ Ev.how = "reify") => Ev.loads = <<>>
Cond_C05_NoEntryLoads == (Has /\ "loads" \in DOMAIN Ev) => SeqSet(Ev.loads) \cap EntryC = {}

Cond_C06_Preload == (Has /\ Ev.ev = "opennode" /\ Ev.how = "preload" /\ IsHamt) =>
    /\ Ev.e = "nil" => (SeqSet(Ev.loads) = ShardC \ {D.rootC} /\ NoFault)
    /\ ~NoFault => Ev.e # "nil"
    /\ (Miss \cap (ShardC \ {D.rootC})) # {} => Ev.e # "nil"
    /\ SeqSet(Ev.loads) \cap EntryC = {}
Cond_C06_AfterPreload == (Has /\ Ev.ev \in {"length", "iter", "lookup"} /\ D.mode = "seq" /\ IsHamt /\ "opened" \in DOMAIN D) => TRUE

Cond_C12_Lookup == (Has /\ Ev.ev = "lookup" /\ IsHamt /\ Ev.name > 0) =>
    /\ ~NoFault => Ev.res = ErrRes(Ev.how)
    /\ Ev.res = "err" => ~NoFault
    /\ Ev.res = "notfound" => ~Crosses(Ev.name)
    /\ (NoFault /\ ~Crosses(Ev.name)) =>
          (Ev.res = (IF HL(Ev.name).res = "found" THEN "found" ELSE NotFoundRes(Ev.how)) /\ Ev.link = HL(Ev.name).link)
Cond_C12_Iter == (Has /\ Ev.ev = "iter" /\ IsHamt) =>
    LET F == Miss \cup SeqSet(Ev.failed)
        r == IterS(D.S, 1, F) IN
    /\ Ev.res = "done"
    /\ Ev.pairs = r.pairs
    /\ Ev.errs = r.errs
\* Length has no error result: when a shard it needs cannot be loaded it must not pass off the entries it did reach
\* as the count (its failure value is 0, or -1)
Cond_C12_Length == (Has /\ Ev.ev = "length" /\ IsHamt /\ Ev.failed # <<>>) => Ev.n <= 0
\* the preloading view needs every shard: an unavailable one makes it fail (never a node that looks complete)
Cond_C12_Preload == (Has /\ Ev.ev = "opennode" /\ Ev.how = "preload" /\ IsHamt) =>
    ((~NoFault \/ (Miss \cap (ShardC \ {D.rootC})) # {}) => Ev.e # "nil")
Cond_C12_IterTerminates == (Has /\ Ev.ev = "iter") => Ev.res \in {"done", "noiter"}

\* ---- C15: the map-node contract on any link list / any well-formed HAMT ----
StoredPairs == IF IsHamt THEN IterS(D.S, 1, {}).pairs
               ELSE [k \in 1 .. Len(D.plain) |-> <<D.plain[k].name, D.plain[k].link>>]
FirstUnder(n) == LET ks == {k \in 1 .. Len(StoredPairs) : StoredPairs[k][1] = n}
                 IN  IF ks = {} THEN 0 ELSE StoredPairs[CHOOSE k \in ks : \A j \in ks : k <= j][2]
Cond_C15_Iter == (Has /\ Ev.ev = "iter" /\ NoFault /\ Miss = {}) =>
    /\ Ev.res = "done" /\ Ev.errs = 0
    /\ Ev.pairs = StoredPairs
    /\ Ev.how = "map" => Ev.over = "err"
Cond_C15_Length == (Has /\ Ev.ev = "length" /\ NoFault /\ Miss = {}) =>
    /\ Ev.n = Len(StoredPairs)
    /\ nIter # -1 => Ev.n = nIter
Cond_C15_Lookup == (Has /\ Ev.ev = "lookup" /\ NoFault /\ Miss = {} /\ Ev.name # 0) =>
    IF FirstUnder(Ev.name) # 0
    THEN Ev.res = "found" /\ Ev.link = FirstUnder(Ev.name)
    ELSE Ev.res = NotFoundRes(Ev.how)

\* ---- C17: no data race reported on the scenarios run under the race detector ----
Cond_C17_NoRace == (Has /\ Ev.ev = "racecheck") => (Ev.races = 0 /\ Ev.completed)

Cond_C17_MissingShard == (Has /\ Ev.ev = "lookup" /\ D.mode = "conc" /\ IsHamt /\ Ev.name > 0 /\ Miss # {}) =>
    IF Crosses(Ev.name) THEN Ev.res = "err"
    ELSE (Ev.res = (IF HL(Ev.name).res = "found" THEN "found" ELSE "notfound") /\ Ev.link = HL(Ev.name).link)

\* ---- C20: first requests follow the depth-first link-order walk ----
Cond_C20_Order == (Has /\ IsHamt /\ D.mode = "seq") => IsPrefixSeq(firstReq, PreShards)
Cond_C20_Complete == (Has /\ IsHamt /\ D.mode = "seq" /\ Ev.ev \in {"iter", "length"} /\ NoFault) => firstReq = PreShards

\* Collecting invariants (see TraceFile.tla)
Chk(nm, c) == c \/ PrintT(<<"VIOL", nm, l - 1>>)
Inv_Harness_WF == Chk("Inv_Harness_WF", Cond_Harness_WF)
Inv_NoPanic == Chk("Inv_NoPanic", Cond_NoPanic)
Inv_C02_Stored == Chk("Inv_C02_Stored", Cond_C02_Stored)
Inv_C02_Open == Chk("Inv_C02_Open", Cond_C02_Open)
Inv_C02_Lookup == Chk("Inv_C02_Lookup", Cond_C02_Lookup)
Inv_C02_Iter == Chk("Inv_C02_Iter", Cond_C02_Iter)
Inv_C02_Length == Chk("Inv_C02_Length", Cond_C02_Length)
Inv_C02_Big == Chk("Inv_C02_Big", Cond_C02_Big)
Inv_C08_Canon == Chk("Inv_C08_Canon", Cond_C08_Canon)
Inv_C08_RefEq == Chk("Inv_C08_RefEq", Cond_C08_RefEq)
Inv_C05_Lookup == Chk("Inv_C05_Lookup", Cond_C05_Lookup)
Inv_C05_Open == Chk("Inv_C05_Open", Cond_C05_Open)
Inv_C05_NoEntryLoads == Chk("Inv_C05_NoEntryLoads", Cond_C05_NoEntryLoads)
Inv_C06_Preload == Chk("Inv_C06_Preload", Cond_C06_Preload)
Inv_C12_Lookup == Chk("Inv_C12_Lookup", Cond_C12_Lookup)
Inv_C12_Iter == Chk("Inv_C12_Iter", Cond_C12_Iter)
Inv_C12_IterTerminates == Chk("Inv_C12_IterTerminates", Cond_C12_IterTerminates)
Inv_C15_Iter == Chk("Inv_C15_Iter", Cond_C15_Iter)
Inv_C12_Preload == Chk("Inv_C12_Preload", Cond_C12_Preload)
Inv_C12_Length == Chk("Inv_C12_Length", Cond_C12_Length)
Inv_C15_Length == Chk("Inv_C15_Length", Cond_C15_Length)
Inv_C15_Lookup == Chk("Inv_C15_Lookup", Cond_C15_Lookup)
\* the same condition as a C12 statement: with several goroutines reaching one unavailable shard each of them reports the load error
Inv_C12_ConcMissing == Chk("Inv_C12_ConcMissing", Cond_C17_MissingShard)
Inv_C17_MissingShard == Chk("Inv_C17_MissingShard", Cond_C17_MissingShard)
Inv_C17_NoRace == Chk("Inv_C17_NoRace", Cond_C17_NoRace)
Inv_C20_Order == Chk("Inv_C20_Order", Cond_C20_Order)
Inv_C20_Complete == Chk("Inv_C20_Complete", Cond_C20_Complete)
Alias == [l |-> l]
=============================================================================
