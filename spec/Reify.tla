------------------------------- MODULE Reify -------------------------------
(* The reification dispatch as a (one-step) machine over every input class  *)
(* and variant; the table itself lives in ReifyOps.                         *)
EXTENDS ReifyOps
VARIABLES cls, variant, res
vars == <<cls, variant, res>>
Init == cls \in Classes /\ variant \in Variants /\ res = "pending"
Step == res = "pending" /\ res' = Result(cls, variant) /\ UNCHANGED <<cls, variant>>
Spec == Init /\ [][Step]_vars /\ WF_vars(Step)
Inv_C14_Total == res # "pending" => res \in {"same", "linkmap", "file", "dir", "hamtdir", "error"}
Inv_C14_Typed == res # "pending" => res = Expected(cls)
Inv_C14_VariantIndependent == \A c \in Classes : Result(c, "reify") = Result(c, "preload")
Terminates == <>(res # "pending")
=============================================================================
