----------------------------- MODULE TraceBuild ----------------------------
(***************************************************************************)
(* Trace validation for the builders (file, symlink, plain and sharded     *)
(* directory, quick builder, recursive import).                            *)
(*                                                                         *)
(* One case = one logical input; it contains one "build" line per variant  *)
(* of building that input: entries in another order, the source reader     *)
(* fragmented differently, the same build repeated (Go map order varies),  *)
(* the k-th write-open or commit failing.  A build line carries the write  *)
(* sequence the storage callbacks observed - for every committed block its *)
(* identity, encoded length and, parsed independently from the committed   *)
(* bytes, its links with their Tsize and the UnixFS FileSize/BlockSizes -  *)
(* and what the builder returned.                                          *)
(*   C16  children before parents at every prefix; clean failure           *)
(*   C11  sizes are the true cumulative / content sizes                    *)
(*   C07  the file DAG has the reference layout (and the reference's CID)  *)
(*   C10  every variant of one input returns the same link and size        *)
(***************************************************************************)
EXTENDS FileOps, TLC, Json, IOUtils

Trace == ndJsonDeserialize(IOEnv.TRACE)
VARIABLES l, first    \* first: input id -> <<root, size>> of the first successful build of the case
vars == <<l, first>>

Init == l = 1 /\ first = <<>>
IsEv(e) == l <= Len(Trace) /\ Trace[l].ev = e /\ l' = l + 1
E == Trace[l]
Reset == IsEv("reset") /\ first' = <<>>
Build == /\ IsEv("build")
         /\ first' = IF E.ret.e = "nil" /\ ~(\E k \in 1 .. Len(first) : first[k][1] = E.input)
                     THEN Append(first, <<E.input, E.root, E.ret.size>>) ELSE first
Done == l = Len(Trace) + 1 /\ UNCHANGED vars
Crash == IsEv("crash") /\ UNCHANGED first
Next == Reset \/ Build \/ Crash \/ Done
TraceSpec == Init /\ [][Next]_vars

Has == l > 1
Ev == Trace[l - 1]
IsBuildAny == Has /\ Ev.ev = "build"
IsBuild == IsBuildAny /\ ~Ev.big
SeqSet(s) == {s[k] : k \in 1 .. Len(s)}
CM == Ev.commits
Produced == SeqSet(Ev.produced)
CommittedC == {CM[k].c : k \in 1 .. Len(CM)}
FirstCommit(c) == CHOOSE k \in 1 .. Len(CM) : CM[k].c = c /\ \A j \in 1 .. (k - 1) : CM[j].c # c
ExtT(c) == LET ks == {k \in 1 .. Len(Ev.ext) : Ev.ext[k].c = c}
           IN  IF ks = {} THEN -1 ELSE Ev.ext[CHOOSE k \in ks : TRUE].tsize

\* cumulative size / content bytes of a committed block, from the parsed commits
RECURSIVE Cum(_), Bytes(_)
Cum(c) == IF c \notin CommittedC THEN ExtT(c)
          ELSE LET b == CM[FirstCommit(c)]
               IN  b.len + SumSeq([k \in 1 .. Len(b.links) |-> Cum(b.links[k].c)])
Bytes(c) == IF c \notin CommittedC THEN 0
            ELSE LET b == CM[FirstCommit(c)]
                 IN  IF Len(b.links) = 0 THEN b.bytes
                     ELSE SumSeq([k \in 1 .. Len(b.links) |-> Bytes(b.links[k].c)])

\* blocks reachable from c through links to blocks this build produces
RECURSIVE Reach(_)
Reach(c) == IF c \notin CommittedC THEN {c}
            ELSE {c} \cup UNION {Reach(CM[FirstCommit(c)].links[k].c) : k \in 1 .. Len(CM[FirstCommit(c)].links)}

NoCrash == ~(l > 1 /\ Trace[l - 1].ev = "crash")   \* the code under test took the whole harness process down (driver: mark_crash)
Cond_NoPanic == NoCrash /\ (IsBuildAny => Ev.ret.e # "panic")

\* ---- C16 ----
Cond_C16_NoDangling == IsBuild =>
    \A k \in 1 .. Len(CM) : \A m \in 1 .. Len(CM[k].links) :
        CM[k].links[m].c \in Produced => \E j \in 1 .. (k - 1) : CM[j].c = CM[k].links[m].c
Cond_C16_CleanFailure == IsBuildAny =>
    /\ Ev.ret.e # "nil" => Ev.ret.link = 0
    /\ Ev.faulted => Ev.ret.e # "nil"
    /\ (Ev.ret.e = "nil" /\ ~Ev.faulted) => Ev.ret.link # 0
Cond_C16_LinkOnlyWhenComplete == (IsBuild /\ Ev.ret.link # 0) =>
    /\ Ev.ret.link \in CommittedC
    /\ (Reach(Ev.ret.link) \cap Produced) \subseteq CommittedC

\* ---- C11 ----
Cond_C11_Tsize == IsBuild =>
    \A k \in 1 .. Len(CM) : \A m \in 1 .. Len(CM[k].links) :
        LET lk == CM[k].links[m] IN
        (lk.c \in CommittedC \/ ExtT(lk.c) # -1) => lk.tsize = Cum(lk.c)
Cond_C11_Returned == (IsBuild /\ Ev.ret.e = "nil" /\ Ev.ret.link # 0) => Ev.ret.size = Cum(Ev.ret.link)
Cond_C11_FileSizes == IsBuild =>
    \A k \in 1 .. Len(CM) :
        LET b == CM[k] IN
        (b.isfile /\ Len(b.links) > 0) =>
           /\ b.fsize = Bytes(b.c)
           /\ Len(b.bsizes) = Len(b.links)
           /\ \A m \in 1 .. Len(b.links) : b.bsizes[m] = Bytes(b.links[m].c)

\* ---- C07 ----
Cond_C07_Shape == (IsBuild /\ Ev.what = "file" /\ Ev.clean /\ Ev.n >= 0) =>
    Ev.shape = PreArity(RefLayout(Ev.n, Ev.w))
Cond_C07_RefShape == (IsBuild /\ Ev.what = "file" /\ "refShape" \in DOMAIN Ev /\ Ev.n >= 0) =>
    Ev.refShape = PreArity(RefLayout(Ev.n, Ev.w))   \* the transcription itself, against boxo
Cond_C07_RefEq == (IsBuildAny /\ "refEq" \in DOMAIN Ev) => Ev.refEq

\* beyond the listed properties: the reference importer's trickle DAG has the transcribed trickle shape
Cond_X_TrickleShape == (IsBuildAny /\ "trickleShape" \in DOMAIN Ev /\ Ev.n >= 0) =>
    Ev.trickleShape = PreArity(RefTrickle(Ev.n, Ev.w))

\* beyond the listed properties: a source reader that fails (a non-EOF error, at any position, also in place of
\* the final EOF) makes the file builder return an error and no link - never a link to a silently truncated file
Cond_X_ReaderFailure == (IsBuildAny /\ "readFail" \in DOMAIN Ev /\ Ev.readFail >= 0) =>
    (Ev.ret.e # "nil" /\ Ev.ret.link = 0)

\* ---- C10 ----
Cond_C10_Same == (IsBuildAny /\ Ev.ret.e = "nil") =>
    \A k \in 1 .. Len(first) : first[k][1] = Ev.input => (first[k][2] = Ev.root /\ first[k][3] = Ev.ret.size)
\* C07: every further build of the same input in the case (into the same store, over a swapped store, after unrelated
\* builds, by concurrent builders) has the root of the first one - the one compared with the reference importer
Cond_C07_RefSame == (IsBuildAny /\ Ev.ret.e = "nil") =>
    \A k \in 1 .. Len(first) : first[k][1] = Ev.input => first[k][2] = Ev.root

\* large builds: the same facts computed by the harness (see build.go summarizeBig)
Cond_C16_Big == (IsBuildAny /\ Ev.big) => (Ev.bigOK.nodangling /\ Ev.bigOK.complete)
Cond_C11_Big == (IsBuildAny /\ Ev.big) => (Ev.bigOK.tsize /\ Ev.bigOK.filesizes /\ Ev.bigOK.returned)

Chk(nm, c) == c \/ PrintT(<<"VIOL", nm, l - 1>>)
Inv_NoPanic == Chk("Inv_NoPanic", Cond_NoPanic)
Inv_C16_NoDangling == Chk("Inv_C16_NoDangling", Cond_C16_NoDangling)
Inv_C16_CleanFailure == Chk("Inv_C16_CleanFailure", Cond_C16_CleanFailure)
Inv_C16_LinkOnlyWhenComplete == Chk("Inv_C16_LinkOnlyWhenComplete", Cond_C16_LinkOnlyWhenComplete)
Inv_C11_Tsize == Chk("Inv_C11_Tsize", Cond_C11_Tsize)
Inv_C11_Returned == Chk("Inv_C11_Returned", Cond_C11_Returned)
Inv_C11_FileSizes == Chk("Inv_C11_FileSizes", Cond_C11_FileSizes)
Inv_C07_Shape == Chk("Inv_C07_Shape", Cond_C07_Shape)
Inv_C07_RefShape == Chk("Inv_C07_RefShape", Cond_C07_RefShape)
Inv_C07_RefEq == Chk("Inv_C07_RefEq", Cond_C07_RefEq)
Inv_C10_Same == Chk("Inv_C10_Same", Cond_C10_Same)
Inv_C07_RefSame == Chk("Inv_C07_RefSame", Cond_C07_RefSame)
Inv_X_TrickleShape == Chk("Inv_X_TrickleShape", Cond_X_TrickleShape)
Inv_X_ReaderFailure == Chk("Inv_X_ReaderFailure", Cond_X_ReaderFailure)
Inv_C16_Big == Chk("Inv_C16_Big", Cond_C16_Big)
Inv_C11_Big == Chk("Inv_C11_Big", Cond_C11_Big)
Alias == [l |-> l]
=============================================================================
