------------------------------ MODULE PathOps ------------------------------
(***************************************************************************)
(* UnixFS trees, path resolution and what a path-selector traversal is     *)
(* expected to match (C03).                                                *)
(* node = [kind, kids] with kind in {"file1","fileN","symlink","dir",      *)
(* "hamt"}; kids = sequence of [name, node] (only for dir / hamt).         *)
(***************************************************************************)
EXTENDS Integers, Sequences, FiniteSets
None == [kind |-> "none", kids |-> <<>>]
IsDir(n) == n.kind \in {"dir", "hamt"}
KidNamed(n, s) == LET ks == {k \in 1 .. Len(n.kids) : n.kids[k].name = s}
                  IN  IF ks = {} THEN 0 ELSE CHOOSE k \in ks : TRUE
RECURSIVE Resolve(_, _)
Resolve(n, segs) ==
  IF Len(segs) = 0 THEN n
  ELSE IF ~IsDir(n) THEN None
       ELSE LET k == KidNamed(n, Head(segs)) IN
            IF k = 0 THEN None ELSE Resolve(n.kids[k].node, Tail(segs))
\* reified kind of a node: files are bytes, everything else is a map (a symlink is a name-addressable link map)
KindOf(n) == IF n.kind \in {"file1", "fileN"} THEN "bytes" ELSE "map"
KidNames(n) == {n.kids[k].name : k \in 1 .. Len(n.kids)}
HasMatcher(target) == target \in {"match", "preload", "entity"}
Prefixes(segs) == [k \in 1 .. Len(segs) |-> SubSeq(segs, 1, k - 1)]   \* <<>>, <<s1>>, ..., without the full path
\* the sequence of match paths a traversal must produce
ExpectedMatches(tree, segs, target, mp) ==
  IF Resolve(tree, segs) = None THEN <<>>
  ELSE (IF mp THEN Prefixes(segs) ELSE <<>>) \o (IF HasMatcher(target) THEN <<segs>> ELSE <<>>)
=============================================================================
