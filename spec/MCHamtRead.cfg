SPECIFICATION Spec
CONSTANTS
  Univ <- MCUniv
  Dig <- MCDig
  MaxOps = 2
INVARIANTS Inv_C02_Lookup Inv_C05_LookupLoads Inv_C12_Lookup Inv_C12_Iterate Inv_C20_IterOrder
CHECK_DEADLOCK FALSE
