------------------------------ MODULE CodecOps -----------------------------
(***************************************************************************)
(* The UnixFS Data protobuf decoder (data/unmarshal.go consumeUnixFSData)  *)
(* as a function over *token streams*, and the schema-level notions the    *)
(* property C09 is stated with.  Bytes and 64-bit values are outside TLA+: *)
(* a token carries a field number, a wire type and a small value id; the   *)
(* harness instantiates value ids with boundary values and serialises.     *)
(*                                                                         *)
(* token  [f |-> field number, wt |-> wire type, v |-> value id,           *)
(*         nm |-> non-minimal varint encoding, sub |-> nested presentation]*)
(* wire types: "varint", "bytes", "fixed32", "fixed64", "group"            *)
(* For field 4 with wt = "bytes" (a packed run) v is the sequence of       *)
(* element value ids; for field 8 (Mtime) sub names the nested layout.     *)
(***************************************************************************)
EXTENDS Integers, Sequences, FiniteSets

FType == 1  FData == 2  FFileSize == 3  FBlockSizes == 4
FHashType == 5  FFanout == 6  FMode == 7  FMtime == 8
KnownFields == 1 .. 8
ExpectedWT(f) == IF f \in {FData, FMtime} THEN "bytes" ELSE "varint"

Absent == <<>>                       \* optional scalar: <<>> or <<v>>
EmptyMsg == [type |-> Absent, data |-> Absent, filesize |-> Absent, blocksizes |-> <<>>,
             hashtype |-> Absent, fanout |-> Absent, mode |-> Absent, mtime |-> Absent]
FieldName(f) == CASE f = FType -> "type" [] f = FData -> "data" [] f = FFileSize -> "filesize"
                  [] f = FHashType -> "hashtype" [] f = FFanout -> "fanout" [] f = FMode -> "mode"
                  [] f = FMtime -> "mtime" [] OTHER -> "blocksizes"

(***************************************************************************)
(* Decoder state: msg so far, la = an unpacked block-size list is open,    *)
(* packed = a packed run was consumed, err.                                *)
(* `packedFlagSet` selects the code at the pinned commit (FALSE: the flag  *)
(* packedBlockSizes is never set, F2) or the repaired code (TRUE).         *)
(***************************************************************************)
DecInit == [msg |-> EmptyMsg, la |-> FALSE, packed |-> FALSE, bsSet |-> FALSE, err |-> ""]

SetOnce(st, name, val) ==
  IF st.msg[name] # Absent THEN [st EXCEPT !.err = "repeat"]       \* ipld map assembler: cannot repeat key
  ELSE [st EXCEPT !.msg[name] = <<val>>]

DecStep(st, t, packedFlagSet) ==
  IF st.err # "" THEN st
  ELSE IF t.f <= 0 THEN [st EXCEPT !.err = "tag"]
  ELSE IF t.wt = "bad" THEN [st EXCEPT !.err = "parse"]
  ELSE IF t.f \notin KnownFields THEN st                              \* unknown field: skipped
  ELSE IF t.f = FBlockSizes
       THEN IF t.wt = "varint"
            THEN IF st.packed THEN [st EXCEPT !.err = "twice"]
                 ELSE [st EXCEPT !.la = TRUE, !.msg.blocksizes = Append(@, t.v)]
            ELSE IF t.wt = "bytes"
                 THEN IF st.la THEN [st EXCEPT !.err = "twice"]
                      ELSE IF st.bsSet THEN [st EXCEPT !.err = "repeat"]
                      ELSE [st EXCEPT !.msg.blocksizes = t.v, !.bsSet = TRUE, !.packed = packedFlagSet]
                 ELSE [st EXCEPT !.err = "wiretype"]
       ELSE IF t.wt # ExpectedWT(t.f) THEN [st EXCEPT !.err = "wiretype"]
            ELSE IF t.f = FMtime /\ t.sub = "bad" THEN [st EXCEPT !.err = "parse"]
                 ELSE SetOnce(st, FieldName(t.f), IF t.f = FMtime THEN [v |-> t.v, sub |-> t.sub] ELSE t.v)

\* epilogue: the unpacked list (or the empty list) is assigned unless a packed run was flagged
DecFinish(st) ==
  IF st.err # "" THEN st
  ELSE IF ~st.packed /\ st.bsSet THEN [st EXCEPT !.err = "repeat"]     \* BlockSizes assigned a second time
       ELSE IF st.msg.type = Absent THEN [st EXCEPT !.err = "required"]
            ELSE st

RECURSIVE DecRun(_, _, _)
DecRun(st, toks, pfs) == IF Len(toks) = 0 THEN DecFinish(st) ELSE DecRun(DecStep(st, Head(toks), pfs), Tail(toks), pfs)
Decode(toks, pfs) == DecRun(DecInit, toks, pfs)

(***************************************************************************)
(* What the schema says a token stream means (a reference decoder):        *)
(* last-one-wins is irrelevant because conformant encoders emit optional   *)
(* fields once; repeated elements accumulate in order, packed or not.      *)
(***************************************************************************)
RECURSIVE Meaning(_, _)
Meaning(m, toks) ==
  IF Len(toks) = 0 THEN m
  ELSE LET t == Head(toks) IN
       IF t.f \notin KnownFields THEN Meaning(m, Tail(toks))
       ELSE IF t.f = FBlockSizes
            THEN Meaning([m EXCEPT !.blocksizes = IF t.wt = "bytes" THEN @ \o t.v ELSE Append(@, t.v)], Tail(toks))
            ELSE Meaning([m EXCEPT ![FieldName(t.f)] = <<IF t.f = FMtime THEN [v |-> t.v, sub |-> t.sub] ELSE t.v>>], Tail(toks))

\* well-formed (conformant) streams: valid tags, right wire types, optional fields at most once,
\* block sizes unpacked (anywhere) or as one packed run, the required type present
Conformant(toks) ==
  /\ \A k \in 1 .. Len(toks) : toks[k].f > 0 /\ toks[k].wt # "bad"
  /\ \A k \in 1 .. Len(toks) : toks[k].f \in KnownFields =>
        (IF toks[k].f = FBlockSizes THEN toks[k].wt \in {"varint", "bytes"} ELSE toks[k].wt = ExpectedWT(toks[k].f))
  /\ \A k \in 1 .. Len(toks) : (toks[k].f = FMtime => toks[k].sub # "bad")
  /\ \A i, j \in 1 .. Len(toks) : (i # j /\ toks[i].f = toks[j].f /\ toks[i].f \in KnownFields) => toks[i].f = FBlockSizes
  /\ LET packedRuns == {k \in 1 .. Len(toks) : toks[k].f = FBlockSizes /\ toks[k].wt = "bytes"}
         unpacked   == {k \in 1 .. Len(toks) : toks[k].f = FBlockSizes /\ toks[k].wt = "varint"}
     IN  Cardinality(packedRuns) <= 1 /\ (packedRuns = {} \/ unpacked = {})
  /\ \E k \in 1 .. Len(toks) : toks[k].f = FType

\* canonical encoding: ascending known fields only, unpacked block sizes, minimal varints
Canonical(toks) ==
  /\ Conformant(toks)
  /\ \A k \in 1 .. Len(toks) : toks[k].f \in KnownFields /\ ~toks[k].nm
  /\ \A k \in 1 .. Len(toks) : toks[k].f = FBlockSizes => toks[k].wt = "varint"
  /\ \A k \in 1 .. Len(toks) : toks[k].f = FMtime => toks[k].sub \in {"s", "sn"}
  /\ \A k \in 1 .. (Len(toks) - 1) : toks[k].f <= toks[k + 1].f

(***************************************************************************)
(* Permissions                                                             *)
(***************************************************************************)
TRaw == 0  TDirectory == 1  TFile == 2  TMetadata == 3  TSymlink == 4  THamt == 5
DefaultPerm(type) == IF type = TFile THEN 420            \* 0644
                     ELSE IF type \in {TDirectory, THamt} THEN 493   \* 0755
                     ELSE 0
\* mode classes stand for concrete modes: "absent", "default" (= DefaultPerm), "other" (a
\* different 12-bit value), "high" (DefaultPerm plus bits above the low twelve)
OtherPerm == 292   \* 0444
PermOf(type, mc) == CASE mc = "absent" -> DefaultPerm(type) [] mc = "default" -> DefaultPerm(type)
                      [] mc = "other" -> OtherPerm [] mc = "high" -> DefaultPerm(type)
ModeValue(type, mc) == CASE mc = "default" -> DefaultPerm(type) [] mc = "other" -> OtherPerm
                         [] mc = "high" -> DefaultPerm(type) + 4096 [] OTHER -> -1
\* the encoder elides a mode equal to the type's default
EncodedModeClass(type, mc) == IF mc = "default" THEN "absent" ELSE mc
=============================================================================
