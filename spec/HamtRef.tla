------------------------------ MODULE HamtRef ------------------------------
(***************************************************************************)
(* The reference (boxo) mutable HAMT under Set / Remove / Reload histories.*)
(* Reload (serialise with Node(), re-open with NewHamtFromDag) is the      *)
(* identity on the abstract trie but forces the real implementation        *)
(* through its lazy-loading paths, so it is part of the exported histories.*)
(* Invariant: every reachable trie denotes exactly the current entry set   *)
(* and is its canonical trie.                                              *)
(***************************************************************************)
EXTENDS HamtOps, TLC, Json
CONSTANTS Univ, Dig, Depth
VARIABLES set, trie, hist
vars == <<set, trie, hist>>

Init == set = {} /\ trie = EmptyTrie /\ hist = <<>>
Set(n) == /\ Len(hist) < Depth
          /\ trie' = RefSet(trie, n, 0, Dig) /\ set' = set \cup {n}
          /\ hist' = Append(hist, <<"set", n>>)
Remove(n) == /\ Len(hist) < Depth
             /\ trie' = RefRemove(trie, n, 0, Dig) /\ set' = set \ {n}
             /\ hist' = Append(hist, <<"remove", n>>)
Reload == /\ Len(hist) < Depth /\ Len(hist) > 0 /\ hist[Len(hist)][1] # "reload"
          /\ UNCHANGED <<set, trie>>
          /\ hist' = Append(hist, <<"reload", 0>>)
Next == (\E n \in Univ : Set(n) \/ Remove(n)) \/ Reload
Spec == Init /\ [][Next]_vars

Inv_C08_Entries == Names(trie) = set
Inv_C08_Canon == trie = Canon(set, 0, Dig)
Inv_C08_Lookup == \A n \in Univ : LookupT(trie, n, 0, Dig).res = (IF n \in set THEN "found" ELSE "notfound")
Export == (Len(hist) = Depth) => PrintT(<<"CASE", ToJson(hist)>>)
=============================================================================
