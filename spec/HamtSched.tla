------------------------------ MODULE HamtSched -----------------------------
(***************************************************************************)
(* All behaviours of NG readers of one shared sharded-directory node, at   *)
(* segment granularity (HamtSchedOps), over the shard table of a REAL      *)
(* stored directory: the harness writes the table the independent walker   *)
(* read back (TableFile, one JSON line: S, digits, the operation alphabet, *)
(* the warm-up sequences) and TLC explores every choice of operations,     *)
(* every warm-up and every schedule.  Each complete behaviour is exported  *)
(* (the sequence of readers released, `hist`) and replayed on the real     *)
(* node by a blocking hook; the recorded segments are validated against    *)
(* HamtSchedOps again by TraceSched.                                       *)
(***************************************************************************)
EXTENDS HamtSchedOps, TLC, Json
CONSTANTS TableFile, NG,
          LG      \* TRUE: the readers also park inside every load (HamtSchedOps, "load gates")
Tab == ndJsonDeserialize(TableFile)[1]
S == Tab.S
DG == Tab.digits
OpSeq == Tab.ops          \* the operation alphabet, a sequence of [o, n]
Warms == Tab.warms        \* the warm-up alternatives, each a sequence of indices into OpSeq
Misses == Tab.misses      \* the alternatives for the set of unavailable blocks, each a sequence of block classes
SetOf(q) == {q[k] : k \in 1 .. Len(q)}
VARIABLES ops, warm, miss, stk, cache, memo, acc, hist
vars == <<ops, warm, miss, stk, cache, memo, acc, hist>>
MSOf(i) == SetOf(Misses[i]) \cup (IF LG THEN {0} ELSE {})
MS == MSOf(miss)
Gs == 1 .. NG

\* the shared state after the warm-up operations have run alone, one after the other
RECURSIVE Warmed(_, _, _, _)
Warmed(M, w, c, m) == IF w = <<>> THEN [cache |-> c, memo |-> m]
                      ELSE LET r == RunAlone(S, DG, M, StackOf(OpSeq[Head(w)]), c, m, <<>>, NoAcc) IN Warmed(M, Tail(w), r.cache, r.memo)

Init == /\ ops \in {f \in [Gs -> 1 .. Len(OpSeq)] : \A g \in 1 .. NG - 1 : f[g] <= f[g + 1]}   \* readers are interchangeable
        /\ warm \in 1 .. Len(Warms)
        /\ miss \in 1 .. Len(Misses)
        /\ stk = [g \in Gs |-> StackOf(OpSeq[ops[g]])]
        /\ cache = Warmed(SetOf(Misses[miss]), Warms[warm], {}, {}).cache
        /\ memo = Warmed(SetOf(Misses[miss]), Warms[warm], {}, {}).memo
        /\ acc = [g \in Gs |-> NoAcc]
        /\ hist = <<>>
Step(g) == /\ stk[g] # <<>>
           /\ LET r == Run(S, DG, MS, stk[g], cache, memo, <<>>, acc[g]) IN
              /\ stk' = [stk EXCEPT ![g] = r.stk]
              /\ cache' = r.cache /\ memo' = r.memo
              /\ acc' = [acc EXCEPT ![g] = r.acc]
              /\ hist' = Append(hist, g)
           /\ UNCHANGED <<ops, warm, miss>>
Done == \A g \in Gs : stk[g] = <<>>
Next == \E g \in Gs : Step(g)      \* a complete behaviour ends (no successor) when every reader has ended
Spec == Init /\ [][Next]_vars /\ WF_vars(Next)

\* every reader, whatever the others do, ends with the answer it has alone
Inv_C17_SchedAnswers == \A g \in Gs : stk[g] = <<>> => AnswerOK(S, DG, MS, OpSeq[ops[g]], acc[g])
\* an unavailable block is never cached and nothing above it is ever counted
Inv_C12_SchedNoCacheOfMissing == \A c \in cache : S[c].c \notin MS
\* parking inside the loads only refines the schedules: the shared state a reader leaves behind and its answer are
\* those of the same reader running alone from the same state
Inv_X_LoadGatesRefine == \A g \in Gs : stk[g] = <<>> => acc[g] = Alone(S, DG, SetOf(Misses[miss]), OpSeq[ops[g]])
\* the memoised state only ever grows and is right: a cached child is a shard of the table, a memoised count a shard
Inv_C17_SchedMemo == cache \subseteq (2 .. Len(S)) /\ memo \subseteq (1 .. Len(S))
\* a warm node needs no loads: after the length warm-up every shard is cached and counted
Inv_X_WarmIsQuiet == (Warmed(MS, Warms[warm], {}, {}).memo = 1 .. Len(S)) => (cache = 2 .. Len(S) /\ memo = 1 .. Len(S))
Terminates == <>Done
Export == Done => PrintT(<<"CASE", ToJson([ops |-> [g \in Gs |-> OpSeq[ops[g]]], warm |-> [k \in 1 .. Len(Warms[warm]) |-> OpSeq[Warms[warm][k]]],
                                               miss |-> Misses[miss], lg |-> LG, sched |-> hist])>>)
=============================================================================
