SPECIFICATION Spec
CONSTANT MaxRootLinks = 2
INVARIANTS Inv_X_Total Inv_X_ConsistentReads Inv_X_NoInventedBytes
CHECK_DEADLOCK FALSE
