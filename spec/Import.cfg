SPECIFICATION Spec
INVARIANTS Inv_C18_ErrorIffOther Inv_C16_ChildrenFirst Inv_C18_LinkMeansAll
PROPERTIES Terminates
CHECK_DEADLOCK FALSE
