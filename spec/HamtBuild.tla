----------------------------- MODULE HamtBuild -----------------------------
(***************************************************************************)
(* The sharded-directory builder (data/builder/dirshard.go) as a machine.  *)
(*                                                                         *)
(* Phase "add": entries are inserted one at a time in an arbitrary order   *)
(* (the order of the caller's slice).  Phase "ser": shard.serialize walks  *)
(* the in-memory trie depth-first; the order in which the children of a    *)
(* shard are visited is the iteration order of a Go map, i.e. arbitrary -  *)
(* modelled by choosing any not-yet-serialised child shard next.  A shard  *)
(* block is committed after all its child shards (sizedStore follows the   *)
(* recursive calls).  failAt injects a failure of the failAt-th commit.    *)
(* A block is identified by the path of buckets leading to its shard; its  *)
(* content is determined by the sub-trie (dag-pb sorts links on encode), so*)
(* the result is independent of both orders.                               *)
(***************************************************************************)
EXTENDS HamtOps, TLC
CONSTANTS Univ, Dig, MaxFail
VARIABLES S, added, trie, phase, stack, committed, failAt, result
vars == <<S, added, trie, phase, stack, committed, failAt, result>>

\* sub-trie at a bucket path
RECURSIVE At(_, _)
At(T, p) == IF Len(p) = 0 THEN T ELSE At(T[Head(p)].kid[1], Tail(p))
ChildShards(T, p) == {b \in DOMAIN At(T, p) : At(T, p)[b].t = "shard"}
RECURSIVE AllPaths(_, _)
AllPaths(T, p) == {p} \cup UNION {AllPaths(T, Append(p, b)) : b \in ChildShards(T, p)}

Init == /\ S \in SUBSET Univ /\ added = {} /\ trie = EmptyTrie /\ phase = "add"
        /\ stack = <<>> /\ committed = <<>> /\ failAt \in 0 .. MaxFail /\ result = "running"

AddOne == /\ phase = "add" /\ \E n \in S \ added :
               /\ trie' = Add(trie, n, 0, Dig) /\ added' = added \cup {n}
          /\ UNCHANGED <<S, phase, stack, committed, failAt, result>>

StartSer == /\ phase = "add" /\ added = S
            /\ phase' = "ser" /\ stack' = <<[p |-> <<>>, todo |-> ChildShards(trie, <<>>)]>>
            /\ UNCHANGED <<S, added, trie, committed, failAt, result>>

Top == stack[Len(stack)]
Descend == /\ phase = "ser" /\ result = "running" /\ Len(stack) > 0
           /\ \E b \in Top.todo :
                LET cp == Append(Top.p, b) IN
                stack' = Append([stack EXCEPT ![Len(stack)].todo = @ \ {b}],
                                [p |-> cp, todo |-> ChildShards(trie, cp)])
           /\ UNCHANGED <<S, added, trie, phase, committed, failAt, result>>

CommitTop == /\ phase = "ser" /\ result = "running" /\ Len(stack) > 0 /\ Top.todo = {}
             /\ IF failAt = Len(committed) + 1
                THEN result' = "error" /\ UNCHANGED <<stack, committed>>
                ELSE /\ committed' = Append(committed, Top.p)
                     /\ stack' = SubSeq(stack, 1, Len(stack) - 1)
                     /\ result' = IF Len(stack) = 1 THEN "link" ELSE "running"
             /\ UNCHANGED <<S, added, trie, phase, failAt>>

Next == AddOne \/ StartSer \/ Descend \/ CommitTop
Spec == Init /\ [][Next]_vars /\ WF_vars(Next)

IsCommitted(p) == \E k \in 1 .. Len(committed) : committed[k] = p

\* C02/C08/C10: the trie is the canonical trie of the inserted set, whatever the order
Inv_C08_Canon == trie = Canon(added, 0, Dig)
Inv_C02_Map == /\ Names(trie) = added
               /\ \A n \in Univ : LookupT(trie, n, 0, Dig).res = (IF n \in added THEN "found" ELSE "notfound")
               /\ phase = "ser" => LET it == IterT(trie) IN
                                     /\ Len(it) = Cardinality(S)
                                     /\ {it[k] : k \in 1 .. Len(it)} = S
\* C16: children before parents at every prefix; link only after everything, never with an error
Inv_C16_NoDangling == \A k \in 1 .. Len(committed) :
                         \A b \in ChildShards(trie, committed[k]) :
                            \E j \in 1 .. (k - 1) : committed[j] = Append(committed[k], b)
Inv_C16_Result == /\ result = "link" => ({committed[k] : k \in 1 .. Len(committed)} = AllPaths(trie, <<>>)
                                         /\ committed[Len(committed)] = <<>>)
                  /\ result = "error" => (failAt # 0 /\ ~IsCommitted(<<>>))
\* C10: the set of committed blocks at the end is a function of S only
Inv_C10_Deterministic == result = "link" => (trie = Canon(S, 0, Dig) /\ Len(committed) = ShardCount(trie))
Terminates == <>(result # "running")
=============================================================================
