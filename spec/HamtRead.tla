------------------------------ MODULE HamtRead -----------------------------
(***************************************************************************)
(* The lazy HAMT reader (hamt/shardeddir.go) over a stored canonical trie. *)
(* A shard is identified by its bucket path from the root.  The node keeps *)
(* a cache of child shards already loaded (shardCache, one per shard node; *)
(* modelled as one set of paths) and a memoised length.  Missing is a set  *)
(* of shard paths whose block cannot be loaded.                            *)
(*   Lookup(n)  descends one bucket per level, loading each shard on the   *)
(*              way that is not cached; a missing shard on the way is a    *)
(*              load error, never "not found".                             *)
(*   Iterate    depth-first in link order; a missing child shard yields    *)
(*              one error and the iteration continues after it.            *)
(*   Length     loads every shard (pre-order); fails if any is missing.    *)
(***************************************************************************)
EXTENDS HamtOps, TLC
CONSTANTS Univ, Dig, MaxOps
VARIABLES S, T, missing, cache, last, nops
vars == <<S, T, missing, cache, last, nops>>

RECURSIVE At(_, _)
At(Tr, p) == IF Len(p) = 0 THEN Tr ELSE At(Tr[Head(p)].kid[1], Tail(p))
ChildShards(Tr, p) == {b \in DOMAIN At(Tr, p) : At(Tr, p)[b].t = "shard"}
RECURSIVE AllPaths(_, _)
AllPaths(Tr, p) == {p} \cup UNION {AllPaths(Tr, Append(p, b)) : b \in ChildShards(Tr, p)}
RECURSIVE PrePaths(_, _)
PrePaths(Tr, p) ==
  LET RECURSIVE Go(_)
      Go(bs) == IF Len(bs) = 0 THEN <<>> ELSE PrePaths(Tr, Append(p, Head(bs))) \o Go(Tail(bs))
  IN  <<p>> \o Go(SortedSeq(ChildShards(Tr, p)))

NoOp == [op |-> "none", n |-> 0, res |-> "", loads |-> <<>>, yielded |-> <<>>, errs |-> 0]

Init == /\ S \in SUBSET Univ /\ T = Canon(S, 0, Dig)
        /\ missing \in {m \in SUBSET (AllPaths(T, <<>>) \ {<<>>}) : Cardinality(m) <= 1}
        /\ cache = {} /\ last = NoOp /\ nops = 0

\* shard paths on the way of name n: prefixes of its digit path while slots are shards
RECURSIVE WayOf(_, _)
WayOf(n, p) == LET b == Dig[n][Len(p) + 1] IN
               IF b \in DOMAIN At(T, p) /\ At(T, p)[b].t = "shard"
               THEN <<Append(p, b)>> \o WayOf(n, Append(p, b)) ELSE <<>>
FirstMissingIn(w) == IF \E k \in 1 .. Len(w) : w[k] \in missing
                     THEN CHOOSE k \in 1 .. Len(w) : w[k] \in missing /\ \A j \in 1 .. (k - 1) : w[j] \notin missing
                     ELSE 0

Lookup(n) ==
  LET w  == WayOf(n, <<>>)
      fm == FirstMissingIn(w)
      upto == IF fm = 0 THEN w ELSE SubSeq(w, 1, fm)
      lds == SelectSeq(upto, LAMBDA p : p \notin cache)
  IN  /\ nops < MaxOps /\ nops' = nops + 1
      /\ cache' = cache \cup ({lds[k] : k \in 1 .. Len(lds)} \ missing)
      /\ last' = [NoOp EXCEPT !.op = "lookup", !.n = n, !.loads = lds,
                    !.res = IF fm # 0 THEN "err" ELSE LookupT(T, n, 0, Dig).res]
      /\ UNCHANGED <<S, T, missing>>

\* iteration: entries reachable without the missing shards, one error per missing shard met
RECURSIVE IterP(_)
IterP(p) ==
  LET RECURSIVE Go(_)
      Go(bs) == IF Len(bs) = 0 THEN [y |-> <<>>, e |-> 0, l |-> <<>>]
                ELSE LET b == Head(bs)
                         s == At(T, p)[b]
                         r == Go(Tail(bs))
                     IN  IF s.t = "val" THEN [y |-> <<s.name>> \o r.y, e |-> r.e, l |-> r.l]
                         ELSE IF Append(p, b) \in missing
                              THEN [y |-> r.y, e |-> 1 + r.e, l |-> <<Append(p, b)>> \o r.l]
                              ELSE LET c == IterP(Append(p, b))
                                   IN  [y |-> c.y \o r.y, e |-> c.e + r.e, l |-> <<Append(p, b)>> \o c.l \o r.l]
  IN  Go(SortedSeq(DOMAIN At(T, p)))

Iterate ==
  LET r == IterP(<<>>) IN
  /\ nops < MaxOps /\ nops' = nops + 1
  /\ cache' = cache \cup ({r.l[k] : k \in 1 .. Len(r.l)} \ missing)
  /\ last' = [NoOp EXCEPT !.op = "iterate", !.yielded = r.y, !.errs = r.e,
                !.loads = SelectSeq(r.l, LAMBDA p : p \notin cache)]
  /\ UNCHANGED <<S, T, missing>>

Next == (\E n \in Univ : Lookup(n)) \/ Iterate
Spec == Init /\ [][Next]_vars

ReachNames == LET y == IterP(<<>>).y IN {y[k] : k \in 1 .. Len(y)}
Inv_C02_Lookup == (last.op = "lookup" /\ missing = {}) =>
                     last.res = (IF last.n \in S THEN "found" ELSE "notfound")
Inv_C05_LookupLoads == last.op = "lookup" =>
                     \A k \in 1 .. Len(last.loads) : \E j \in 1 .. Len(WayOf(last.n, <<>>)) : WayOf(last.n, <<>>)[j] = last.loads[k]
Inv_C12_Lookup == last.op = "lookup" =>
                     (last.res = "err" <=> \E k \in 1 .. Len(WayOf(last.n, <<>>)) : WayOf(last.n, <<>>)[k] \in missing)
Inv_C12_Iterate == last.op = "iterate" =>
                     /\ \A i, j \in 1 .. Len(last.yielded) : i # j => last.yielded[i] # last.yielded[j]
                     /\ {last.yielded[k] : k \in 1 .. Len(last.yielded)} = ReachNames
                     /\ last.errs = Cardinality({m \in missing : \A q \in missing : ~(Len(q) < Len(m) /\ SubSeq(m, 1, Len(q)) = q)})
                     /\ missing = {} => {last.yielded[k] : k \in 1 .. Len(last.yielded)} = S
Inv_C20_IterOrder == (last.op = "iterate" /\ missing = {} /\ nops = 1) =>
                     last.loads = Tail(PrePaths(T, <<>>))
=============================================================================
