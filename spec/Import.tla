------------------------------- MODULE Import ------------------------------
(***************************************************************************)
(* The recursive importer (data/builder/directory.go BuildUnixFSRecursive) *)
(* as a machine: nodes are finished in post-order; a node that is neither  *)
(* a regular file, a directory nor a symlink aborts the import with an     *)
(* error and no link.  Checked over every tree of depth <= 2 whose         *)
(* directories have <= 2 children.                                         *)
(***************************************************************************)
EXTENDS ImportOps, TLC
VARIABLES tree, order, done, result
vars == <<tree, order, done, result>>

Leaf(k) == [kind |-> k, name |-> "", kids |-> <<>>, size |-> 0, target |-> ""]
Dir(ks) == [kind |-> "dir", name |-> "", kids |-> ks, size |-> 0, target |-> ""]
LeafKinds == {"file", "symlink", "other"}
L0 == {Leaf(k) : k \in LeafKinds} \cup {Dir(<<>>)}
SeqsUpTo2(S) == {<<>>} \cup {<<a>> : a \in S} \cup {<<a, b>> : a \in S, b \in S}
L1 == L0 \cup {Dir(ks) : ks \in SeqsUpTo2(L0)}
L2 == {Dir(ks) : ks \in SeqsUpTo2(L1)} \cup L0

RECURSIVE At(_, _)
At(t, p) == IF Len(p) = 0 THEN t ELSE At(t.kids[Head(p)], Tail(p))

Init == tree \in L2 /\ order = PostOrderPaths(tree, <<>>) /\ done = 0 /\ result = "running"
Step == /\ result = "running"
        /\ IF done = Len(order) THEN result' = "link" /\ UNCHANGED done
           ELSE IF At(tree, order[done + 1]).kind = "other" THEN result' = "error" /\ UNCHANGED done
           ELSE done' = done + 1 /\ UNCHANGED result
        /\ UNCHANGED <<tree, order>>
Spec == Init /\ [][Step]_vars /\ WF_vars(Step)

IsPrefixOf(p, q) == Len(p) <= Len(q) /\ SubSeq(q, 1, Len(p)) = p
Inv_C18_ErrorIffOther == result # "running" => (result = "error" <=> HasOther(tree))
Inv_C16_ChildrenFirst == \A j \in 1 .. done : \A i \in 1 .. Len(order) :
                            (IsPrefixOf(order[j], order[i]) /\ order[i] # order[j]) => i < j
Inv_C18_LinkMeansAll == result = "link" => done = Len(order)
Terminates == <>(result # "running")
=============================================================================
