------------------------------- MODULE MCHamt ------------------------------
(* Name universe with engineered digit paths (fanout 4, three levels deep): *)
(* 1,2 collide for one level, 3,4 for two levels, 5,6 for three levels.     *)
EXTENDS Integers, Sequences
MCUniv == 1 .. 6
MCDig == [n \in 1 .. 6 |->
            CASE n = 1 -> <<0, 1, 0, 0>>
              [] n = 2 -> <<0, 2, 0, 0>>
              [] n = 3 -> <<1, 1, 0, 0>>
              [] n = 4 -> <<1, 1, 3, 0>>
              [] n = 5 -> <<2, 3, 3, 1>>
              [] n = 6 -> <<2, 3, 3, 2>>]
MCUniv5 == 1 .. 5
=============================================================================
