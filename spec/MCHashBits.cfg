SPECIFICATION Spec
CONSTANTS
  Patterns <- MCPatterns
  MaxWidth = 10
INVARIANTS Inv_C02_BuilderIsSpec Inv_C02_ReaderIsSpec Inv_C02_Agree
CHECK_DEADLOCK FALSE
