SPECIFICATION Spec
CONSTANTS
  MaxOpt = 2
  MaxUnknown = 1
  AllowNM = FALSE
  BSModes = {"none", "unpacked2", "packed2", "packed0", "unpacked1", "packed1"}
  Muts = {"none"}
  PackedFlagSet = TRUE
INVARIANTS Inv_C09_Accept Inv_GenConformant Inv_C13_Reject Inv_C13_RejectWT
CHECK_DEADLOCK FALSE
