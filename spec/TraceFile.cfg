SPECIFICATION TraceSpec
INVARIANTS
  Inv_Harness_WF
  Inv_C01_Dag Inv_C01_Read Inv_C01_Whole Inv_C01_Open Inv_C01_SeekEnd
  Inv_C04_Seek Inv_C04_NoBudget
  Inv_C05_Read Inv_C05_Seek Inv_C05_Open
  Inv_C06_Preload
  Inv_C12_Read Inv_C12_Whole
  Inv_C20_Order Inv_C20_Complete
CHECK_DEADLOCK TRUE
