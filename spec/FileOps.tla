------------------------------ MODULE FileOps ------------------------------
(***************************************************************************)
(* Pure operators shared by the file-family machines (FileBuild, FileRead) *)
(* and by the trace specifications (TraceFile, TraceBuild).  No variables, *)
(* no constants: everything is a function of its arguments so that the     *)
(* model-checked machines and the trace validators evaluate the *same*     *)
(* definitions.                                                            *)
(*                                                                         *)
(* Trees.  A file DAG is a tree over chunk indices:                        *)
(*   Leaf(i)  = [i |-> i, kids |-> <<>>]   chunk i (1-based); Leaf(0) is   *)
(*              the empty leaf an empty file is stored as                  *)
(*   Node(ks) = [i |-> 0, kids |-> ks]     interior UnixFS File node       *)
(*   NilT     = "no link" (what fileTreeRecursive returns at EOF)          *)
(***************************************************************************)
EXTENDS Integers, Sequences, FiniteSets

Leaf(i)  == [i |-> i, kids |-> <<>>]
Node(ks) == [i |-> 0, kids |-> ks]
NilT     == [i |-> -1, kids |-> <<>>]

Min(a, b) == IF a < b THEN a ELSE b
Max(a, b) == IF a > b THEN a ELSE b

(***************************************************************************)
(* Reference layout: literal transcription of boxo importer/balanced       *)
(* Layout + fillNodeRec.  next = number of chunks consumed so far,         *)
(* n = total chunks (db.Done() <=> next = n), w = Maxlinks.                *)
(***************************************************************************)
RECURSIVE RefFill(_, _, _, _, _)
RefFill(ks, d, next, n, w) ==
  IF Len(ks) < w /\ next < n
  THEN IF d = 1
       THEN RefFill(Append(ks, Leaf(next + 1)), d, next + 1, n, w)
       ELSE LET r == RefFill(<<>>, d - 1, next, n, w)
            IN  RefFill(Append(ks, r.t), d, r.next, n, w)
  ELSE [t |-> Node(ks), next |-> next]

RECURSIVE RefLoop(_, _, _, _, _)
RefLoop(root, d, next, n, w) ==
  IF next < n
  THEN LET r == RefFill(<<root>>, d, next, n, w)
       IN  RefLoop(r.t, d + 1, r.next, n, w)
  ELSE root

RefLayout(n, w) == IF n = 0 THEN Leaf(0) ELSE RefLoop(Leaf(1), 1, 1, n, w)

(***************************************************************************)
(* Reference trickle layout: transcription of boxo importer/trickle        *)
(* Layout + fillTrickleRec (depthRepeat = 4).  A node first takes up to w  *)
(* leaves, then for depth = 1, 2, ... four sub-trees of that depth each,   *)
(* until the data ends (or, for a sub-tree, until its depth limit).        *)
(* Not the layout this library writes - it is one this library must read   *)
(* (C01), and its mixed-depth nodes are a useful adversary for readers.    *)
(***************************************************************************)
DepthRepeat == 4
RECURSIVE TrLeaves(_, _, _, _)
TrLeaves(ks, next, n, w) == IF Len(ks) < w /\ next < n THEN TrLeaves(Append(ks, Leaf(next + 1)), next + 1, n, w)
                            ELSE [ks |-> ks, next |-> next]
RECURSIVE TrRec(_, _, _, _), TrLoop(_, _, _, _, _, _, _)
TrRec(maxDepth, next, n, w) ==
  LET l == TrLeaves(<<>>, next, n, w) IN TrLoop(l.ks, 1, 0, l.next, maxDepth, n, w)
TrLoop(ks, depth, rep, next, maxDepth, n, w) ==
  IF (maxDepth # -1 /\ depth >= maxDepth) \/ next >= n THEN [t |-> Node(ks), next |-> next]
  ELSE IF rep = DepthRepeat THEN TrLoop(ks, depth + 1, 0, next, maxDepth, n, w)
       ELSE LET r == TrRec(depth, next, n, w)
            IN  TrLoop(Append(ks, r.t), depth, rep + 1, r.next, maxDepth, n, w)
RefTrickle(n, w) == TrRec(-1, 0, n, w).t

(***************************************************************************)
(* Builder layout: transcription of data/builder/file.go                   *)
(* BuildUnixFSFile + fileTreeRecursive.  `collapse` selects the rule for   *)
(* a call that ends up with exactly one child:                             *)
(*   "always" - return the lone child (the code at the pinned commit, F1)  *)
(*   "seeded" - return it only when the call was seeded with the previous  *)
(*              root (the repaired code)                                   *)
(***************************************************************************)
RECURSIVE BRec(_, _, _, _, _, _), BFill(_, _, _, _, _, _)
BRec(d, ks0, next, n, w, collapse) ==
  IF d = 1
  THEN IF next < n THEN [t |-> Leaf(next + 1), next |-> next + 1]
                   ELSE [t |-> NilT, next |-> next]
  ELSE LET f  == BFill(d, ks0, next, n, w, collapse)
           ks == f.ks
       IN  IF Len(ks) = 0 THEN [t |-> NilT, next |-> f.next]
           ELSE IF Len(ks) = 1 /\ (collapse = "always" \/ Len(ks0) > 0)
                THEN [t |-> ks[1], next |-> f.next]
                ELSE [t |-> Node(ks), next |-> f.next]
BFill(d, ks, next, n, w, collapse) ==
  IF Len(ks) < w
  THEN LET r == BRec(d - 1, <<>>, next, n, w, collapse)
       IN  IF r.t = NilT THEN [ks |-> ks, next |-> r.next]
           ELSE BFill(d, Append(ks, r.t), r.next, n, w, collapse)
  ELSE [ks |-> ks, next |-> next]

RECURSIVE BLoop(_, _, _, _, _, _, _)
BLoop(hasPrev, prev, d, next, n, w, collapse) ==
  LET r == BRec(d, IF hasPrev THEN <<prev>> ELSE <<>>, next, n, w, collapse)
  IN  IF hasPrev /\ prev = r.t
      THEN (IF r.t = NilT THEN Leaf(0) ELSE r.t)
      ELSE BLoop(TRUE, r.t, d + 1, r.next, n, w, collapse)

BuilderLayout(n, w, collapse) == BLoop(FALSE, NilT, 1, 0, n, w, collapse)

(***************************************************************************)
(* Tree observers                                                          *)
(***************************************************************************)
RECURSIVE Flatten(_), FlattenList(_)
Flatten(t) == IF Len(t.kids) = 0 THEN (IF t.i > 0 THEN <<t.i>> ELSE <<>>)
              ELSE FlattenList(t.kids)
FlattenList(ks) == IF Len(ks) = 0 THEN <<>> ELSE Flatten(Head(ks)) \o FlattenList(Tail(ks))

\* pre-order sequence of child counts: determines the tree shape uniquely
RECURSIVE PreArity(_), PreArityList(_)
PreArity(t) == <<Len(t.kids)>> \o PreArityList(t.kids)
PreArityList(ks) == IF Len(ks) = 0 THEN <<>> ELSE PreArity(Head(ks)) \o PreArityList(Tail(ks))

\* post-order = the order in which a children-first builder commits blocks
RECURSIVE PostOrder(_), PostOrderList(_)
PostOrder(t) == PostOrderList(t.kids) \o <<t>>
PostOrderList(ks) == IF Len(ks) = 0 THEN <<>> ELSE PostOrder(Head(ks)) \o PostOrderList(Tail(ks))

RECURSIVE SumSeq(_)
SumSeq(s) == IF Len(s) = 0 THEN 0 ELSE Head(s) + SumSeq(Tail(s))

\* content bytes beneath a tree, lens[i] = length of chunk i
RECURSIVE ByteSize(_, _), ByteSizeList(_, _)
ByteSize(t, lens) == IF Len(t.kids) = 0 THEN (IF t.i > 0 THEN lens[t.i] ELSE 0)
                     ELSE ByteSizeList(t.kids, lens)
ByteSizeList(ks, lens) == IF Len(ks) = 0 THEN 0
                          ELSE ByteSize(Head(ks), lens) + ByteSizeList(Tail(ks), lens)

(***************************************************************************)
(* Block tables.  A DAG as seen by storage: a sequence of records in       *)
(* depth-first pre-order, B[i] = [parent, lo, hi, leaf, c] with [lo,hi)    *)
(* the byte span and c the identity (CID class) of the block; B[1] is the  *)
(* root and has parent 0.  Because the span of a block contains the spans  *)
(* of its descendants, "blocks whose span intersects [a,b) together with   *)
(* their ancestors" is simply the set of blocks whose span intersects.     *)
(***************************************************************************)
RECURSIVE TableRec(_, _, _, _, _), TableKids(_, _, _, _, _)
\* returns [tab, hi]; acc is the table so far, parent the index of the parent
TableRec(t, parent, lo, lens, acc) ==
  LET me   == Len(acc) + 1
      row0 == [parent |-> parent, lo |-> lo, hi |-> lo, leaf |-> Len(t.kids) = 0, c |-> me]
  IN  IF Len(t.kids) = 0
      THEN LET hi == lo + (IF t.i > 0 THEN lens[t.i] ELSE 0)
           IN  [tab |-> Append(acc, [row0 EXCEPT !.hi = hi]), hi |-> hi]
      ELSE LET r == TableKids(t.kids, me, lo, lens, Append(acc, row0))
           IN  [tab |-> [r.tab EXCEPT ![me].hi = r.hi], hi |-> r.hi]
TableKids(ks, parent, lo, lens, acc) ==
  IF Len(ks) = 0 THEN [tab |-> acc, hi |-> lo]
  ELSE LET r == TableRec(Head(ks), parent, lo, lens, acc)
       IN  TableKids(Tail(ks), parent, r.hi, lens, r.tab)

Table(t, lens) == TableRec(t, 0, 0, lens, <<>>).tab

Idx(B) == 1 .. Len(B)
Kids(B, i) == {j \in Idx(B) : B[j].parent = i}
ArityOf(B) == [i \in Idx(B) |-> Cardinality(Kids(B, i))]
NeededIdx(B, a, b) == {i \in Idx(B) : B[i].lo < b /\ B[i].hi > a}
NeededC(B, a, b)   == {B[i].c : i \in NeededIdx(B, a, b)}
LeafAt(B, p) == CHOOSE i \in Idx(B) : B[i].leaf /\ B[i].lo <= p /\ p < B[i].hi
RECURSIVE PathTo(_, _)
PathTo(B, i) == IF i = 0 THEN <<>> ELSE Append(PathTo(B, B[i].parent), i)
SeqToSet(s) == {s[k] : k \in 1 .. Len(s)}

\* distinct block identities in order of first pre-order occurrence
RECURSIVE DedupSeq(_, _)
DedupSeq(s, seen) == IF Len(s) = 0 THEN <<>>
                     ELSE IF Head(s) \in seen THEN DedupSeq(Tail(s), seen)
                          ELSE <<Head(s)>> \o DedupSeq(Tail(s), seen \cup {Head(s)})
PreorderC(B) == DedupSeq([i \in Idx(B) |-> B[i].c], {})

IsPrefixSeq(s, t) == Len(s) <= Len(t) /\ \A k \in 1 .. Len(s) : s[k] = t[k]

\* well-formedness of a block table (checked on the walker's output)
TableWF(B) ==
  /\ Len(B) >= 1 /\ B[1].parent = 0 /\ B[1].lo = 0
  /\ \A i \in Idx(B) : /\ B[i].lo <= B[i].hi
                       /\ i > 1 => (B[i].parent >= 1 /\ B[i].parent < i)
                       /\ B[i].leaf <=> Kids(B, i) = {}
  /\ \A i \in Idx(B) : ~B[i].leaf =>
        LET ks == Kids(B, i)
            first == CHOOSE j \in ks : \A k \in ks : j <= k
            last  == CHOOSE j \in ks : \A k \in ks : j >= k
        IN  /\ B[first].lo = B[i].lo /\ B[last].hi = B[i].hi
            /\ \A j \in ks : j # first =>
                  \E k \in ks : k < j /\ B[k].hi = B[j].lo
                                /\ \A m \in ks : ~(k < m /\ m < j)

(***************************************************************************)
(* io.ReadSeeker contract                                                  *)
(***************************************************************************)
SeekStart == 0  SeekCurrent == 1  SeekEnd == 2
SeekTarget(p, off, wh, len) ==
  CASE wh = SeekStart   -> off
    [] wh = SeekCurrent -> p + off
    [] wh = SeekEnd     -> len + off
Slice(c, p, n) == SubSeq(c, p + 1, p + n)

\* what a conformant Read(k) at position p of content c (length len) may return:
\*   n bytes (0 <= n <= k), error class e in {"nil","eof","err"}
ReadShapeOK(p, k, n, e, len) ==
  /\ 0 <= n /\ n <= k /\ p + n <= Max(len, p)
  /\ e = "eof" => p + n >= len                      \* EOF only at or past the end
  /\ (p >= len /\ k > 0) => (n = 0 /\ e # "nil")    \* at/past end: EOF (or a load error)
  /\ (p < len /\ k > 0 /\ e = "nil") => n >= 1      \* progress
=============================================================================
