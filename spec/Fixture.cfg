SPECIFICATION Spec
CONSTANTS
  NamePool = {"a", "b"}
  AllowDup = FALSE
INVARIANTS Inv_C19_Siblings Inv_C19_Paths Inv_C19_Same
CHECK_DEADLOCK FALSE
