------------------------------- MODULE Hostile ------------------------------
(***************************************************************************)
(* Model check of HostileOps over every two-block table of a small domain  *)
(* (a root shard over one possible child, arbitrary validity flags,        *)
(* bitfields, link names and targets): the predictions are total (TLC      *)
(* evaluates every operator on every table without a runtime error) and    *)
(* consistent with one another:                                            *)
(*   a key that a lookup finds is a pair a full iteration yields;          *)
(*   when Length succeeds it is the number of pairs an iteration yields;   *)
(*   when Length fails an iteration meets at least one error.              *)
(***************************************************************************)
EXTENDS HostileOps, TLC
CONSTANTS MaxChildLinks, MaxRootLinks, Digits
VARIABLES c, r, dg
vars == <<c, r, dg>>
H == <<c, r>>
SeqsUpTo(S, n) == UNION {[1 .. k -> S] : k \in 0 .. n}
SubSeqs(S) == {<<>>} \cup {<<x>> : x \in S} \cup {<<x, y>> : x \in S, y \in S}   \* bit lists (order irrelevant)
LinkTo(T) == [hasName : BOOLEAN, cls : {"short", "pad", "long"}, name : {0, 1}, target : T]
ChildBlocks == [kind : {"unixfs"}, typ : {5}, hashOK : BOOLEAN, hasFan : {TRUE}, fanout : {8, 16}, pow2 : {TRUE}, bfOK : {TRUE},
                bits : {<<>>, <<0>>, <<1>>, <<0, 1>>}, links : SeqsUpTo(LinkTo({0}), MaxChildLinks)]
               \cup {[kind |-> "nodata", typ |-> -1, hashOK |-> FALSE, hasFan |-> FALSE, fanout |-> 0, pow2 |-> FALSE, bfOK |-> FALSE,
                      bits |-> <<>>, links |-> <<>>]}
RootBlocks == [kind : {"unixfs"}, typ : {5}, hashOK : {TRUE}, hasFan : {TRUE}, fanout : {8}, pow2 : {TRUE}, bfOK : {TRUE},
               bits : {<<>>, <<0>>, <<1>>, <<2>>, <<0, 1>>, <<0, 2>>, <<1, 2>>, <<0, 1, 2>>}, links : SeqsUpTo(LinkTo({0, 1}), MaxRootLinks)]
Init == c \in ChildBlocks /\ r \in RootBlocks /\ dg \in Digits
Next == UNCHANGED vars
Spec == Init /\ [][Next]_vars
Root == 2
It == Iter(H, Root)
Inv_X_FoundIsYielded == (Lookup(H, Root, dg, 0, 1).res = "found") => CountOf(It, "p") >= 1
Inv_X_LengthIsPairs  == (Len_(H, Root) # -1) => LengthReported(H, Root) = CountOf(It, "p")
Inv_X_FailedLengthHasError == (Len_(H, Root) = -1) => CountOf(It, "e") >= 1
Inv_X_Total == /\ LengthReported(H, Root) >= 0
               /\ Lookup(H, Root, dg, 0, 1).res \in {"found", "notfound", "err"}
               /\ Len(It) <= 6
=============================================================================
