SPECIFICATION Spec
CONSTANTS
  Readers = {1, 2}
  N = 5
  W = 2
  K = 3
  LastLen = 2
  Depth = 2
  Missing = {}
  B <- MCB
  Content <- MCContent
  Offsets <- MCOffsets
  Ks <- MCKs
INVARIANTS Inv_C04_PosNonNeg Inv_C04_Seek Inv_C04_Read Inv_C05_NoOverfetch Inv_C12_ErrIffMissing Export
PROPERTIES Act_C04_Independent
CHECK_DEADLOCK FALSE
