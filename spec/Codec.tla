------------------------------- MODULE Codec -------------------------------
(***************************************************************************)
(* Generator + decoder machine for UnixFS Data messages.                   *)
(*                                                                         *)
(* Init chooses a logical message (which optional fields are present, how  *)
(* many block sizes), a presentation of the repeated field (unpacked       *)
(* elements or one packed run), unknown fields to sprinkle in, at most one *)
(* varint to encode non-minimally and at most one malformation.  Emit      *)
(* steps then put the pending tokens into the stream in *any* order (the   *)
(* elements of the repeated field keep their relative order), so TLC       *)
(* enumerates every field permutation and every interleaving.  When the    *)
(* stream is complete the decoder function of CodecOps is applied and the  *)
(* result compared with the schema-level meaning of the stream.            *)
(***************************************************************************)
EXTENDS CodecOps, TLC, Json
CONSTANTS MaxOpt, MaxUnknown, AllowNM, BSModes, Muts, PackedFlagSet
VARIABLES pending, bsLeft, toks, mut, phase
vars == <<pending, bsLeft, toks, mut, phase>>

OptFields == {FData, FFileSize, FHashType, FFanout, FMode, FMtime}
Tok(f, wt, v) == [f |-> f, wt |-> wt, v |-> v, nm |-> FALSE, sub |-> "s"]
FieldTok(f) == IF f = FMtime THEN [f |-> f, wt |-> "bytes", v |-> 1, nm |-> FALSE, sub |-> "s"] ELSE Tok(f, ExpectedWT(f), 1)
UnknownToks == {Tok(15, "varint", 1), Tok(9, "bytes", 1), Tok(12, "fixed32", 1), Tok(13, "fixed64", 1), Tok(14, "group", 1),
                Tok(300, "varint", 1)}
MtimeSubs == {"s", "sn", "ns", "sun"}     \* seconds; seconds+nanos; nanos+seconds; seconds+unknown+nanos

BSInit(mode) == CASE mode = "none"      -> [p |-> {}, l |-> <<>>]
                  [] mode = "unpacked1" -> [p |-> {}, l |-> <<Tok(FBlockSizes, "varint", 1)>>]
                  [] mode = "unpacked2" -> [p |-> {}, l |-> <<Tok(FBlockSizes, "varint", 1), Tok(FBlockSizes, "varint", 2)>>]
                  [] mode = "packed0"   -> [p |-> {Tok(FBlockSizes, "bytes", <<>>)}, l |-> <<>>]
                  [] mode = "packed1"   -> [p |-> {Tok(FBlockSizes, "bytes", <<1>>)}, l |-> <<>>]
                  [] mode = "packed2"   -> [p |-> {Tok(FBlockSizes, "bytes", <<1, 2>>)}, l |-> <<>>]

Init == \E Fs \in SUBSET OptFields, U \in SUBSET UnknownToks, mode \in BSModes, sub \in MtimeSubs, m \in Muts :
          /\ Cardinality(Fs) <= MaxOpt /\ Cardinality(U) <= MaxUnknown
          /\ (FMtime \notin Fs => sub = "s")
          /\ \E nmf \in (IF AllowNM THEN Fs \cup {0, FType} ELSE {0}) :
               /\ nmf # FData /\ nmf # FMtime
               /\ pending = {[FieldTok(f) EXCEPT !.nm = (f = nmf), !.sub = IF f = FMtime THEN sub ELSE "s"] : f \in Fs \cup {FType}}
                            \cup U \cup BSInit(mode).p
          /\ bsLeft = BSInit(mode).l
          /\ toks = <<>> /\ mut = m /\ phase = "emit"

Emit == /\ phase = "emit"
        /\ \/ \E t \in pending : toks' = Append(toks, t) /\ pending' = pending \ {t} /\ UNCHANGED bsLeft
           \/ /\ Len(bsLeft) > 0 /\ toks' = Append(toks, Head(bsLeft)) /\ bsLeft' = Tail(bsLeft) /\ UNCHANGED pending
        /\ UNCHANGED <<mut, phase>>

\* one malformation applied to the finished stream
Mutate(s, m) ==
  CASE m = "none" -> s
    [] m = "wiretype" -> [s EXCEPT ![1] = [@ EXCEPT !.wt = IF @ = "varint" THEN "fixed32" ELSE "varint", !.v = 1]]  \* first token: another wire type
    [] m = "tag0" -> Append(s, [f |-> 0, wt |-> "varint", v |-> 1, nm |-> FALSE, sub |-> "s"])
    [] m = "trunc" -> Append(s, [f |-> 3, wt |-> "bad", v |-> 1, nm |-> FALSE, sub |-> "s"])
    [] m = "notype" -> SelectSeq(s, LAMBDA t : t.f # FType)
    [] m = "mixed" -> s \o <<Tok(FBlockSizes, "bytes", <<1>>), Tok(FBlockSizes, "varint", 2)>>

Finish == /\ phase = "emit" /\ pending = {} /\ bsLeft = <<>>
          /\ toks' = Mutate(toks, mut) /\ phase' = "done"
          /\ UNCHANGED <<pending, bsLeft, mut>>
Next == Emit \/ Finish
Spec == Init /\ [][Next]_vars

Dec == Decode(toks, PackedFlagSet)
KnownFirst == toks[1].f \in KnownFields
\* C09: every conformant presentation decodes to its meaning
Inv_C09_Accept == (phase = "done" /\ Conformant(toks)) => (Dec.err = "" /\ Dec.msg = Meaning(EmptyMsg, toks))
\* generated streams are conformant unless a malformation was applied
Inv_GenConformant == (phase = "done" /\ mut = "none") => Conformant(toks)
\* malformed streams are rejected (the decoder is total: Dec always has a value)
Inv_C13_Reject == (phase = "done" /\ mut \in {"tag0", "trunc", "notype"}) => Dec.err # ""
Inv_C13_RejectWT == (phase = "done" /\ mut = "wiretype" /\ KnownFirst /\ toks[1].f # FBlockSizes) => Dec.err # ""
Export == (phase = "done") => PrintT(<<"CASE", ToJson([toks |-> toks, mut |-> mut, accept |-> (Dec.err = ""), conf |-> Conformant(toks),
                                                         canon |-> Canonical(toks)])>>)

\* the permission table (type x mode class): reported bits and the encode/decode round trip
ModeClasses == {"absent", "default", "other", "high"}
PermTable == \A ty \in 0 .. 5, mc \in ModeClasses :
                /\ PermOf(ty, mc) = (IF mc = "absent" THEN DefaultPerm(ty) ELSE ModeValue(ty, mc) % 4096)
                /\ PermOf(ty, EncodedModeClass(ty, mc)) = PermOf(ty, mc)
ASSUME PermTable
=============================================================================
