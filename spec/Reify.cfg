SPECIFICATION Spec
INVARIANTS Inv_C14_Total Inv_C14_Typed Inv_C14_VariantIndependent
PROPERTIES Terminates
CHECK_DEADLOCK FALSE
