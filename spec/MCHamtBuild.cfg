SPECIFICATION Spec
CONSTANTS
  Univ <- MCUniv
  Dig <- MCDig
  MaxFail = 3
INVARIANTS Inv_C08_Canon Inv_C02_Map Inv_C16_NoDangling Inv_C16_Result Inv_C10_Deterministic
PROPERTIES Terminates
CHECK_DEADLOCK FALSE
