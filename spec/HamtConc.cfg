SPECIFICATION Spec
CONSTANTS
  G = {"g1", "g2"}
  Locked = TRUE
  Collect = FALSE
INVARIANTS Inv_C17_NoRace Inv_C17_MutexOK Inv_C17_Results Inv_C17_MemoMonotone
PROPERTIES Terminates
CHECK_DEADLOCK FALSE
