------------------------------ MODULE TracePath ----------------------------
(***************************************************************************)
(* Trace validation for path-selector traversals.  A "walk" line carries   *)
(* the model tree, the requested segments, the target selector, the        *)
(* matchPath flag, what the visitor saw (path, kind, content check, entry  *)
(* names of every match, in order) and the blocks requested.               *)
(***************************************************************************)
EXTENDS PathOps, TLC, Json, IOUtils
Trace == ndJsonDeserialize(IOEnv.TRACE)
VARIABLES l
vars == <<l>>
Init == l = 1
IsEv(e) == l <= Len(Trace) /\ Trace[l].ev = e /\ l' = l + 1
Next == IsEv("crash") \/ IsEv("reset") \/ IsEv("walk") \/ (l = Len(Trace) + 1 /\ UNCHANGED l)
TraceSpec == Init /\ [][Next]_vars
Has == l > 1
Ev == Trace[l - 1]
IsW == Has /\ Ev.ev = "walk"
Tgt == Resolve(Ev.tree, Ev.segs)
Exp == ExpectedMatches(Ev.tree, Ev.segs, Ev.target, Ev.mp)
MPaths == [k \in 1 .. Len(Ev.matches) |-> Ev.matches[k].path]
SeqSet(s) == {s[k] : k \in 1 .. Len(s)}
TargetMatches == {k \in 1 .. Len(Ev.matches) : Ev.matches[k].path = Ev.segs}

NoCrash == ~(l > 1 /\ Trace[l - 1].ev = "crash")   \* the code under test took the whole harness process down (driver: mark_crash)
Cond_NoPanic == NoCrash /\ (IsW => Ev.e \notin {"panic", "compile"})
\* the named entity is matched exactly once, last, with the right kind and payload
Cond_C03_Target == (IsW /\ Tgt # None /\ HasMatcher(Ev.target)) =>
    /\ Cardinality(TargetMatches) = 1
    /\ Len(Ev.matches) > 0 /\ Ev.matches[Len(Ev.matches)].path = Ev.segs
    /\ LET m == Ev.matches[Len(Ev.matches)] IN
       /\ m.kind = KindOf(Tgt)
       /\ ~Ev.passive => (IF KindOf(Tgt) = "bytes" THEN m.bytesOK
                          ELSE SeqSet(m.names) = KidNames(Tgt) /\ Len(m.names) = Len(Tgt.kids) /\ m.linksOK)
\* nothing but the expected nodes is matched; a path naming no entry does not match its (non-)target
Cond_C03_NothingElse == IsW =>
    /\ \A k \in 1 .. Len(MPaths) :
          IF Tgt # None THEN \E j \in 1 .. Len(Exp) : Exp[j] = MPaths[k]
          ELSE Ev.mp /\ Len(MPaths[k]) < Len(Ev.segs) /\ SubSeq(Ev.segs, 1, Len(MPaths[k])) = MPaths[k]
    /\ (Tgt = None /\ ~Ev.mp) => Ev.matches = <<>>
\* with path matching every node along the path is matched once, in order, before the target
Cond_C03_PathNodes == (IsW /\ Ev.mp /\ Tgt # None) => MPaths = Exp
Cond_C03_NoMP == (IsW /\ ~Ev.mp /\ Tgt # None) => MPaths = Exp

\* ---- blocks (passive visitor): C05 / C06 / C20 path parts ----
BT == Ev.blocks
\* identical subtrees share blocks, so a block class may belong to several entities
EntitiesOf(c) == {k \in 1 .. Len(BT) : \E j \in 1 .. Len(BT[k].cls) : BT[k].cls[j] = c}
Known(c) == EntitiesOf(c) # {}
IsProperPrefix(p, q) == Len(p) < Len(q) /\ SubSeq(q, 1, Len(p)) = p
Cond_C05_Path == (IsW /\ Ev.passive /\ Ev.target = "match" /\ ~Ev.mp) =>
    \A i \in 1 .. Len(Ev.loads) :
       LET c == Ev.loads[i] IN
       \E k \in EntitiesOf(c) :
          LET e == BT[k] IN
          \/ IsProperPrefix(e.path, Ev.segs)                       \* a directory on the way (any of its shards)
          \/ (e.path = Ev.segs /\ e.cls[1] = c /\ Tgt # None)      \* the target's own root block, nothing below it
Cond_C06_PathPreload == (IsW /\ Ev.passive /\ Ev.target = "preload" /\ ~Ev.mp /\ Tgt # None /\ Ev.e = "nil") =>
    LET ks == {k \in 1 .. Len(BT) : BT[k].path = Ev.segs} IN
    \A k \in ks : \A j \in 1 .. Len(BT[k].cls) : (Len(Ev.segs) = 0 /\ j = 1) \/ \E i \in 1 .. Len(Ev.loads) : Ev.loads[i] = BT[k].cls[j]
\* entity access (preload / entity selector with the bytes-consuming visitor): the whole entity, none of
\* the blocks of its entries, or an error when one of its blocks is unavailable
TgtEnt == {k \in 1 .. Len(BT) : BT[k].path = Ev.segs}
Below == {k \in 1 .. Len(BT) : IsProperPrefix(Ev.segs, BT[k].path)}
SetOfSeq(s) == {s[k] : k \in 1 .. Len(s)}
EntityC == UNION {SetOfSeq(BT[k].cls) : k \in TgtEnt}
BelowOnlyC == UNION {SetOfSeq(BT[k].cls) : k \in Below} \ (EntityC \cup UNION {SetOfSeq(BT[k].cls) : k \in {j \in 1 .. Len(BT) : IsProperPrefix(BT[j].path, Ev.segs)}})
Cond_C06_Entity == (IsW /\ Ev.consume /\ Ev.target \in {"entity", "preload"} /\ ~Ev.mp /\ Tgt # None) =>
    IF Ev.missing = <<>>
    THEN /\ Ev.e = "nil"
         /\ \A c \in EntityC : (Len(Ev.segs) = 0 /\ c = BT[1].cls[1]) \/ c \in SetOfSeq(Ev.loads)
         /\ IsDir(Tgt) => SetOfSeq(Ev.loads) \cap BelowOnlyC = {}
    ELSE Ev.e # "nil"
\* blocks along the path are first requested in root-to-target order
FirstIdx(c) == CHOOSE i \in 1 .. Len(Ev.loads) : Ev.loads[i] = c /\ \A j \in 1 .. (i - 1) : Ev.loads[j] # c
MinDepth(c) == CHOOSE d \in {Len(BT[k].path) : k \in EntitiesOf(c)} : \A k \in EntitiesOf(c) : d <= Len(BT[k].path)
MaxDepth(c) == CHOOSE d \in {Len(BT[k].path) : k \in EntitiesOf(c)} : \A k \in EntitiesOf(c) : d >= Len(BT[k].path)
Cond_C20_PathOrder == (IsW /\ Ev.passive /\ Ev.target = "match" /\ ~Ev.mp) =>
    \A i, j \in 1 .. Len(Ev.loads) :
       (Known(Ev.loads[i]) /\ Known(Ev.loads[j]) /\ FirstIdx(Ev.loads[i]) < FirstIdx(Ev.loads[j])) =>
          MinDepth(Ev.loads[i]) <= MaxDepth(Ev.loads[j])
\* The exact request sequence of a path traversal (target = the match selector, passive visitor, no path matching):
\* for every directory on the way the shards its lookup of the next segment visits below the directory's own root
\* block (HamtOps!LookupS over the walker's shard table; none for a plain directory), then the root block of the
\* entry found - and nothing after a segment that names no entry or below a node that is not a directory.
H == INSTANCE HamtOps
EntAt(p) == LET ks == {k \in 1 .. Len(BT) : BT[k].path = p} IN IF ks = {} THEN 0 ELSE CHOOSE k \in ks : TRUE
ShardChain(e, i) ==
    IF e.kind # "hamt" \/ e.S = <<>> THEN <<>>
    ELSE LET r == H!LookupS(e.S, 1, Ev.segDigits[i], 0, Ev.segIds[i])
         IN  [k \in 1 .. (Len(r.path) - 1) |-> e.S[r.path[k + 1]].c]
RECURSIVE ExpLoadsFrom(_)
ExpLoadsFrom(p) ==
    IF p = Len(Ev.segs) THEN <<>>
    ELSE LET e  == EntAt(SubSeq(Ev.segs, 1, p))
             ch == EntAt(SubSeq(Ev.segs, 1, p + 1))
         IN  IF e = 0 \/ BT[e].kind \notin {"dir", "hamt"} THEN <<>>
             ELSE ShardChain(BT[e], p + 1) \o (IF ch = 0 THEN <<>> ELSE <<BT[ch].cls[1]>> \o ExpLoadsFrom(p + 1))
Cond_C20_PathExact == (IsW /\ Ev.passive /\ ~Ev.consume /\ Ev.target = "match" /\ ~Ev.mp /\ Ev.e = "nil") =>
    Ev.loads = ExpLoadsFrom(0)

\* with the preload selector as the target the whole target entity follows, in depth-first link order
\* (BT[k].cls lists an entity's blocks in that order, the entity's own root block first)
Cond_C20_PreloadPathExact == (IsW /\ Ev.passive /\ ~Ev.consume /\ Ev.target = "preload" /\ ~Ev.mp /\ Ev.e = "nil") =>
    LET t == EntAt(Ev.segs) IN
    Ev.loads = ExpLoadsFrom(0) \o (IF t = 0 THEN <<>> ELSE Tail(BT[t].cls))

\* the sequence of requests is a function of the DAG and the path alone: a second traversal in the same process
\* (fresh store, link system and root node) requests exactly what the first one did
Cond_C20_PathSame == (IsW /\ Ev.again) => Ev.loads = Ev.prevLoads

Chk(nm, c) == c \/ PrintT(<<"VIOL", nm, l - 1>>)
Inv_NoPanic == Chk("Inv_NoPanic", Cond_NoPanic)
Inv_C20_PathExact == Chk("Inv_C20_PathExact", Cond_C20_PathExact)
Inv_C20_PreloadPathExact == Chk("Inv_C20_PreloadPathExact", Cond_C20_PreloadPathExact)
Inv_C20_PathSame == Chk("Inv_C20_PathSame", Cond_C20_PathSame)
Inv_C03_Target == Chk("Inv_C03_Target", Cond_C03_Target)
Inv_C03_NothingElse == Chk("Inv_C03_NothingElse", Cond_C03_NothingElse)
Inv_C03_PathNodes == Chk("Inv_C03_PathNodes", Cond_C03_PathNodes)
Inv_C03_NoMP == Chk("Inv_C03_NoMP", Cond_C03_NoMP)
Inv_C05_Path == Chk("Inv_C05_Path", Cond_C05_Path)
Inv_C06_PathPreload == Chk("Inv_C06_PathPreload", Cond_C06_PathPreload)
Inv_C06_Entity == Chk("Inv_C06_Entity", Cond_C06_Entity)
Inv_C20_PathOrder == Chk("Inv_C20_PathOrder", Cond_C20_PathOrder)
Alias == [l |-> l]
=============================================================================
