----------------------------- MODULE TraceFile -----------------------------
(***************************************************************************)
(* Trace validation for the file family.                                   *)
(*                                                                         *)
(* The harness records, for every scenario it runs on the real library,    *)
(* one ndjson line per API call (with the call's arguments, its result and *)
(* the blocks requested from storage while it ran).  This module replays   *)
(* such a file against the io.ReadSeeker / lazy-loading contract of        *)
(* FileOps/FileRead: each line is consumed by exactly one action, which    *)
(* only updates the abstract state (reader positions, first-request order);*)
(* whether the recorded call conforms is decided by the *named invariants* *)
(* below, one group per property, evaluated after every line.  An action   *)
(* never blocks on a property: if no action can consume a line the trace   *)
(* is malformed and TLC reports a deadlock (a harness fault, not a         *)
(* violation).                                                             *)
(***************************************************************************)
EXTENDS FileOps, TLC, Json, IOUtils

Trace == ndJsonDeserialize(IOEnv.TRACE)

VARIABLES l,        \* next line to consume
          B,        \* block table of the current case (independent walker)
          content,  \* source bytes (small cases) or <<>>
          L,        \* source length
          cmode,    \* "bytes": data logged byte by byte; "eq": compared in Go
          dagEq,    \* walker's concatenation of the leaves = source bytes
          missing,  \* block classes made unavailable
          mode,     \* scenario tag ("seq" = cold sequential access)
          pos,      \* reader -> position, Closed or Unknown
          pre,      \* position of the acting reader before the last call
          tgt,      \* target the last Seek should have reached (or Unknown)
          firstReq, \* distinct block classes in order of first request
          pend,     \* reader -> blocks its Seeks have requested since its last non-empty Read
          unj       \* blocks requested by earlier Seeks that the latest call showed to be unjustified
vars == <<l, B, content, L, cmode, dagEq, missing, mode, pos, pre, tgt, firstReq, pend, unj>>

MaxR == 4
Closed == -2000000001
Unknown == -2000000000
ClosedAll == [r \in 1 .. MaxR |-> Closed]
NoPend == [r \in 1 .. MaxR |-> {}]
\* what a request for the bytes [a,b) may fetch (see the C05 conditions below)
ZeroAtC(a, b) == {B[i].c : i \in {j \in Idx(B) : B[j].lo = B[j].hi /\ a <= B[j].lo /\ B[j].lo <= b}}
AllowedC(a, b) == NeededC(B, a, b) \cup ZeroAtC(a, b)

RECURSIVE AddReq(_, _)
AddReq(fr, loads) ==
  IF Len(loads) = 0 THEN fr
  ELSE IF \E k \in 1 .. Len(fr) : fr[k] = Head(loads)
       THEN AddReq(fr, Tail(loads))
       ELSE AddReq(Append(fr, Head(loads)), Tail(loads))

Init == /\ l = 1 /\ B = <<>> /\ content = <<>> /\ L = 0 /\ cmode = "bytes" /\ dagEq = TRUE
        /\ missing = {} /\ mode = "" /\ pos = ClosedAll /\ pre = 0 /\ tgt = Unknown
        /\ firstReq = <<>> /\ pend = NoPend /\ unj = {}

IsEv(e) == l <= Len(Trace) /\ Trace[l].ev = e /\ l' = l + 1
E == Trace[l]

Reset == /\ IsEv("reset")
         /\ B' = <<>> /\ content' = <<>> /\ L' = 0 /\ cmode' = "bytes" /\ dagEq' = TRUE
         /\ missing' = {} /\ mode' = "" /\ pos' = ClosedAll /\ pre' = 0 /\ tgt' = Unknown
         /\ firstReq' = <<>> /\ pend' = NoPend /\ unj' = {}

Dag == /\ IsEv("dag")
       /\ B' = E.B /\ content' = E.content /\ L' = E.L /\ cmode' = E.cmode /\ dagEq' = E.dagEq
       /\ missing' = SeqToSet(E.missing) /\ mode' = E.mode
       /\ UNCHANGED <<pos, pre, tgt, firstReq, pend>> /\ unj' = {}

OpenNode == /\ IsEv("opennode")
            /\ pos' = ClosedAll
            /\ firstReq' = AddReq(firstReq, E.loads)
            /\ UNCHANGED <<B, content, L, cmode, dagEq, missing, mode, pre, tgt, pend>> /\ unj' = {}

Open == /\ IsEv("open")
        /\ pos' = [pos EXCEPT ![E.r] = IF E.e = "nil" THEN 0 ELSE Closed]
        /\ firstReq' = AddReq(firstReq, E.loads)
        /\ pend' = [pend EXCEPT ![E.r] = {}] /\ unj' = {}
        /\ UNCHANGED <<B, content, L, cmode, dagEq, missing, mode, pre, tgt>>

Seek == /\ IsEv("seek")
        /\ LET p == pos[E.r]
               t == IF p = Unknown /\ E.wh = SeekCurrent THEN Unknown
                    ELSE SeekTarget(p, E.off, E.wh, L)
           IN  /\ pre' = p
               /\ tgt' = t
               /\ pos' = [pos EXCEPT ![E.r] =
                            IF t = Unknown THEN (IF E.e = "nil" THEN E.ret ELSE Unknown)
                            ELSE IF t < 0 THEN p ELSE t]   \* a refused seek leaves the position where it was (FileRead.Seek)
               \* what earlier Seeks of this reader requested is justified only if the position now sought still needs it
               /\ unj' = IF t = Unknown THEN {} ELSE pend[E.r] \ (IF t < 0 THEN {} ELSE AllowedC(t, t + 1))
               /\ pend' = [pend EXCEPT ![E.r] = SeqToSet(E.loads)]
        /\ firstReq' = AddReq(firstReq, E.loads)
        /\ UNCHANGED <<B, content, L, cmode, dagEq, missing, mode>>

Read == /\ IsEv("read")
        /\ pre' = pos[E.r]
        /\ pos' = [pos EXCEPT ![E.r] = IF @ = Unknown THEN Unknown ELSE @ + E.n]
        \* a Read that asks for bytes justifies what the Seeks before it requested only as far as its own range needs it
        /\ IF E.k = 0 THEN UNCHANGED pend /\ unj' = {}
           ELSE /\ pend' = [pend EXCEPT ![E.r] = {}]
                /\ unj' = IF pos[E.r] < 0 THEN {} ELSE pend[E.r] \ AllowedC(pos[E.r], pos[E.r] + E.k)
        /\ firstReq' = AddReq(firstReq, E.loads)
        /\ UNCHANGED <<B, content, L, cmode, dagEq, missing, mode, tgt>>

Whole == /\ IsEv("whole")
         /\ pre' = 0
         /\ firstReq' = AddReq(firstReq, E.loads)
         /\ UNCHANGED <<B, content, L, cmode, dagEq, missing, mode, pos, tgt, pend>> /\ unj' = {}

Budget == /\ IsEv("budget")
          /\ UNCHANGED <<B, content, L, cmode, dagEq, missing, mode, pos, pre, tgt, firstReq, pend>> /\ unj' = {}

\* a byte range through a subset-matcher traversal over the node (no reader state involved)
Subset == /\ IsEv("subset")
          /\ firstReq' = AddReq(firstReq, E.loads)
          /\ UNCHANGED <<B, content, L, cmode, dagEq, missing, mode, pos, pre, tgt, pend>> /\ unj' = {}
\* the environment makes every block available again; readers and nodes keep their state
Heal == /\ IsEv("heal") /\ missing' = {}
        /\ UNCHANGED <<B, content, L, cmode, dagEq, mode, pos, pre, tgt, firstReq, pend>> /\ unj' = {}
\* the builder returned a link whose DAG the independent walker cannot read back from the store
Unwalkable == /\ IsEv("unwalkable")
              /\ UNCHANGED <<B, content, L, cmode, dagEq, missing, mode, pos, pre, tgt, firstReq, pend>> /\ unj' = {}
Done == l = Len(Trace) + 1 /\ UNCHANGED vars

Crash == IsEv("crash") /\ UNCHANGED <<B, content, L, cmode, dagEq, missing, mode, pos, pre, tgt, firstReq, pend>> /\ unj' = {}
Next == Crash \/ Reset \/ Dag \/ OpenNode \/ Open \/ Seek \/ Read \/ Whole \/ Budget \/ Heal \/ Subset \/ Unwalkable \/ Done
TraceSpec == Init /\ [][Next]_vars

(***************************************************************************)
(* Invariants.  Ev is the line just consumed.                              *)
(***************************************************************************)
Has == l > 1
Ev == Trace[l - 1]
\* total: bytes claimed beyond the end of the content are simply wrong
DataOK(p, n) == IF cmode = "bytes"
                THEN (IF n = 0 THEN Ev.data = <<>>
                      ELSE p >= 0 /\ n > 0 /\ p + n <= Len(content) /\ Len(Ev.data) = n /\ Ev.data = Slice(content, p, n))
                ELSE Ev.eq
NoFault == Ev.failed = <<>>
AllC == {B[i].c : i \in Idx(B)}
PreNoRoot == SelectSeq(PreorderC(B), LAMBDA c : c # B[1].c)

\* harness sanity (a failure here is a broken check, not a violation)
Cond_Harness_WF == (Has /\ Ev.ev = "dag") => (TableWF(B) /\ (cmode = "bytes" => Len(content) = L))
Cond_Harness_NoBudget == TRUE

\* no API call may panic (the harness records a recovered panic as e = "panic")
NoCrash == ~(l > 1 /\ Trace[l - 1].ev = "crash")   \* the code under test took the whole harness process down (driver: mark_crash)
Cond_NoPanic == NoCrash /\ ((Has /\ "e" \in DOMAIN Ev) => Ev.e # "panic")

\* C01: the stored DAG holds the bytes; sizes; whole-value and streamed reads
Cond_C01_Dag == (Has /\ Ev.ev = "dag") =>
                 /\ dagEq /\ B[1].hi = L
                 /\ \A i \in Idx(B) : B[i].fsize # -1 => B[i].fsize = B[i].hi - B[i].lo
Cond_C01_Stored == (Has /\ Ev.ev = "unwalkable") => FALSE   \* every block of a built file is in the store
Cond_C01_Read == (Has /\ Ev.ev = "read" /\ pre >= 0 /\ NoFault) =>
                 /\ Ev.e # "err"
                 /\ ReadShapeOK(pre, Ev.k, Ev.n, Ev.e, L)
                 /\ DataOK(pre, Ev.n)
Cond_C01_Whole == (Has /\ Ev.ev = "whole" /\ NoFault) =>
                 /\ Ev.e = "nil" /\ Ev.n = L /\ DataOK(0, Ev.n)
Cond_C01_Open == (Has /\ Ev.ev \in {"open", "opennode"} /\ NoFault) => Ev.e = "nil"
Cond_C01_SeekEnd == (Has /\ Ev.ev = "seek" /\ Ev.wh = SeekEnd /\ Ev.off = 0 /\ NoFault) =>
                 (Ev.e = "nil" /\ Ev.ret = L)

\* C04: the io.ReadSeeker model
Cond_C04_Seek == (Has /\ Ev.ev = "seek" /\ NoFault) =>
                 IF tgt = Unknown
                 THEN \* position probe after a failed seek: must report a usable position
                      (Ev.e = "nil" /\ Ev.ret >= 0)
                 ELSE IF tgt < 0 THEN Ev.e # "nil"
                      ELSE (Ev.e = "nil" /\ Ev.ret = tgt)
Cond_C04_Read == Cond_C01_Read
Cond_C04_NoBudget == (Has /\ Ev.ev = "budget") => FALSE

\* C05: only what the request needs.  A child that holds no bytes (lo = hi) has no byte span to intersect; the
\* reader passes it when it walks from one neighbour to the next, so requesting it is accepted (never demanded)
\* when the range reaches its position.
Cond_C05_Read == (Has /\ Ev.ev = "read" /\ pre >= 0) =>
                 \A m \in 1 .. Len(Ev.loads) : Ev.loads[m] \in AllowedC(pre, pre + Max(Ev.k, 1))
Cond_C05_Seek == /\ (Has /\ Ev.ev = "seek") =>
                      \A m \in 1 .. Len(Ev.loads) :
                         tgt >= 0 /\ Ev.loads[m] \in AllowedC(tgt, tgt + 1)
                 \* ... and a block a Seek requested must be needed by the bytes the reader then actually asks for:
                 \* repositioning again, or reading elsewhere, leaves it fetched for no requested byte
                 /\ unj = {}
Cond_C05_Open == (Has /\ (Ev.ev = "open" \/ (Ev.ev = "opennode" /\ Ev.how # "preload"))) =>
                 Ev.loads = <<>>

\* the range [a,b) through a subset-matcher traversal: exactly those bytes, only the blocks the range needs
Cond_C05_Subset == (Has /\ Ev.ev = "subset") =>
                 /\ NoFault => (Ev.e = "nil" /\ Ev.n = Ev.b - Ev.a /\ DataOK(Ev.a, Ev.n))
                 /\ \A m \in 1 .. Len(Ev.loads) : Ev.loads[m] \in AllowedC(Ev.a, Ev.b)

\* C06: preload fetches the whole entity or fails
Cond_C06_Preload == (Has /\ Ev.ev = "opennode" /\ Ev.how = "preload") =>
                 /\ Ev.e = "nil" => (SeqToSet(Ev.loads) = AllC \ {B[1].c} /\ NoFault)
                 /\ ~NoFault => Ev.e # "nil"
                 /\ (missing \cap (AllC \ {B[1].c})) # {} => Ev.e # "nil"

\* C12: unavailable blocks surface as errors, never EOF / truncation / wrong bytes
Cond_C12_Read == (Has /\ Ev.ev = "read" /\ pre >= 0) =>
                 /\ ~NoFault => Ev.e = "err"
                 /\ Ev.e = "err" => ~NoFault
                 /\ Ev.e = "eof" => pre + Ev.n >= L
                 /\ DataOK(pre, Ev.n)
                 /\ ReadShapeOK(pre, Ev.k, Ev.n, Ev.e, L)
                 /\ \A m \in 1 .. Len(Ev.failed) :
                       \E i \in Idx(B) : B[i].c = Ev.failed[m] /\ B[i].lo <= pre + Ev.n /\ pre + Ev.n < B[i].hi
Cond_C12_Whole == (Has /\ Ev.ev = "whole") =>
                 /\ ~NoFault => Ev.e = "err"
                 /\ Ev.e # "nil" => ~NoFault
                 /\ Ev.e = "nil" => Ev.n = L
                 /\ DataOK(0, Ev.n)
                 /\ \A m \in 1 .. Len(Ev.failed) :
                       \E i \in Idx(B) : B[i].c = Ev.failed[m] /\ B[i].lo = Ev.n
\* the preloading view needs every block of the file: an unavailable one makes it fail
Cond_C12_Preload == (Has /\ Ev.ev = "opennode" /\ Ev.how = "preload") =>
                 ((~NoFault \/ (missing \cap (AllC \ {B[1].c})) # {}) => Ev.e # "nil")
Cond_C12_NoBudget == Cond_C04_NoBudget

\* C20: first requests follow the depth-first link-order walk
Cond_C20_Order == (Has /\ mode = "seq" /\ Len(B) > 0) => IsPrefixSeq(firstReq, PreNoRoot)
Cond_C20_Complete == (Has /\ mode = "seq" /\ Ev.ev = "whole" /\ NoFault) => firstReq = PreNoRoot

\* Collecting invariants: a violated condition prints the property invariant
\* and the trace line; evaluation continues so that one pass reports every
\* violating line of the trace (the driver turns the printed lines into the verdict).
Chk(nm, c) == c \/ PrintT(<<"VIOL", nm, l - 1>>)
Inv_Harness_WF == Chk("Inv_Harness_WF", Cond_Harness_WF)
Inv_Harness_NoBudget == Chk("Inv_Harness_NoBudget", Cond_Harness_NoBudget)
Inv_C01_Dag == Chk("Inv_C01_Dag", Cond_C01_Dag)
Inv_C01_Stored == Chk("Inv_C01_Stored", Cond_C01_Stored)
Inv_C01_Read == Chk("Inv_C01_Read", Cond_C01_Read)
Inv_C01_Whole == Chk("Inv_C01_Whole", Cond_C01_Whole)
Inv_C01_Open == Chk("Inv_C01_Open", Cond_C01_Open)
Inv_C01_SeekEnd == Chk("Inv_C01_SeekEnd", Cond_C01_SeekEnd)
Inv_C04_Seek == Chk("Inv_C04_Seek", Cond_C04_Seek)
Inv_C04_Read == Chk("Inv_C04_Read", Cond_C04_Read)
Inv_C04_NoBudget == Chk("Inv_C04_NoBudget", Cond_C04_NoBudget)
Inv_C05_Read == Chk("Inv_C05_Read", Cond_C05_Read)
Inv_C05_Seek == Chk("Inv_C05_Seek", Cond_C05_Seek)
Inv_C05_Open == Chk("Inv_C05_Open", Cond_C05_Open)
Inv_C05_Subset == Chk("Inv_C05_Subset", Cond_C05_Subset)
Inv_C06_Preload == Chk("Inv_C06_Preload", Cond_C06_Preload)
Inv_C12_Preload == Chk("Inv_C12_Preload", Cond_C12_Preload)
Inv_C12_Read == Chk("Inv_C12_Read", Cond_C12_Read)
Inv_C12_Whole == Chk("Inv_C12_Whole", Cond_C12_Whole)
Inv_C12_NoBudget == Chk("Inv_C12_NoBudget", Cond_C12_NoBudget)
Inv_C20_Order == Chk("Inv_C20_Order", Cond_C20_Order)
Inv_C20_Complete == Chk("Inv_C20_Complete", Cond_C20_Complete)
Inv_NoPanic == Chk("Inv_NoPanic", Cond_NoPanic)
Alias == [l |-> l]
=============================================================================
