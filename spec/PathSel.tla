------------------------------ MODULE PathSel ------------------------------
(***************************************************************************)
(* Enumeration of (tree, path, target selector, matchPath) combinations    *)
(* with their expected matches.  Trees have a plain or sharded root with   *)
(* up to two entries named from {"a", "."}; an entry is a single-block     *)
(* file, a multi-block file, a symlink, or a plain / sharded directory     *)
(* with at most one entry named from {"b", ".."} (directories may really   *)
(* contain entries called "." and "..").  Paths are every path of the tree *)
(* and its perturbations (last segment replaced by an absent name, an      *)
(* extra segment appended below the target).                               *)
(***************************************************************************)
EXTENDS PathOps, TLC, Json
CONSTANTS Targets, MPs
VARIABLES tree, segs, target, mp
vars == <<tree, segs, target, mp>>
Leaf(k) == [kind |-> k, kids |-> <<>>]
Leaves == {Leaf("file1"), Leaf("fileN"), Leaf("symlink")}
Ent(nm, n) == [name |-> nm, node |-> n]
DirOf(k, es) == [kind |-> k, kids |-> es]
DirKinds == {"dir", "hamt"}
L1Dirs == {DirOf(k, <<>>) : k \in DirKinds} \cup {DirOf(k, <<Ent(nm, lf)>>) : k \in DirKinds, nm \in {"b", ".."}, lf \in Leaves}
L1 == Leaves \cup L1Dirs
Roots == {DirOf(k, <<>>) : k \in DirKinds}
         \cup {DirOf(k, <<Ent(nm, n)>>) : k \in DirKinds, nm \in {"a", "."}, n \in L1}
         \cup {DirOf(k, <<Ent("a", n1), Ent(".", n2)>>) : k \in DirKinds, n1 \in L1, n2 \in L1}
RECURSIVE PathsOf(_)
PathsOf(n) == {<<>>} \cup UNION {{<<n.kids[k].name>> \o p : p \in PathsOf(n.kids[k].node)} : k \in 1 .. Len(n.kids)}
Perturb(p) == {p, Append(p, "x"), Append(p, "a")} \cup (IF Len(p) > 0 THEN {[p EXCEPT ![Len(p)] = "x"]} ELSE {})
Candidates(t) == UNION {Perturb(p) : p \in PathsOf(t)}
Init == /\ tree \in Roots /\ segs \in Candidates(tree) /\ target \in Targets /\ mp \in MPs
Next == UNCHANGED vars
Spec == Init /\ [][Next]_vars
Exp == ExpectedMatches(tree, segs, target, mp)
\* the expectation is well-formed: match paths are prefixes of the request in increasing length, the target last, each once
Inv_C03_ExpShape == /\ \A i \in 1 .. Len(Exp) : Len(Exp[i]) <= Len(segs) /\ SubSeq(segs, 1, Len(Exp[i])) = Exp[i]
                    /\ \A i, j \in 1 .. Len(Exp) : i < j => Len(Exp[i]) < Len(Exp[j])
                    /\ (Resolve(tree, segs) = None) => Exp = <<>>
                    /\ (Resolve(tree, segs) # None /\ HasMatcher(target)) => Exp[Len(Exp)] = segs
Export == PrintT(<<"CASE", ToJson([tree |-> tree, segs |-> segs, target |-> target, mp |-> mp])>>)
=============================================================================
