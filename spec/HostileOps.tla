------------------------------ MODULE HostileOps -----------------------------
(***************************************************************************)
(* Beyond the listed properties: what the sharded-directory reader makes   *)
(* of an ARBITRARY (malformed, hostile) DAG.  C13 only demands "a value or *)
(* an error, no panic, bounded work"; this module transcribes the reader   *)
(* (hamt/shardeddir.go, hamt/util.go, iter/iter.go at the repaired tree)   *)
(* far enough to PREDICT, for every block table, whether reification       *)
(* succeeds, what every lookup answers, what Length reports and how many   *)
(* pairs and errors a full iteration produces.                             *)
(*                                                                         *)
(* H[i] is block i as the independent decoders (go-codec-dagpb + the gogo  *)
(* UnixFS message) see the stored bytes:                                   *)
(*   kind     "raw" | "nodata" | "baddata" | "unixfs"                      *)
(*   typ      UnixFS DataType (unixfs only)                                *)
(*   hashOK   HashType present and murmur3                                 *)
(*   hasFan, fanout, pow2   Fanout present / value (clamped) / positive    *)
(*            power of two                                                 *)
(*   bfOK     the bitfield bytes fit fanout/8                              *)
(*   bits     the bit indices that are set (a list)                        *)
(*   links    in stored order: [hasName, cls, name, target]                *)
(*            cls   "short" | "pad" | "long": name length against the      *)
(*                  hex-prefix length of THIS block's fanout               *)
(*            name  id of the text behind the prefix among the case's      *)
(*                  lookup keys (0: none of them)                          *)
(*            target  index into H, 0 when the linked block is not stored  *)
(***************************************************************************)
EXTENDS Integers, Sequences, FiniteSets

\* validateHAMTData + bitField (NewBitfield wants a multiple of 8, FromBytes wants the bytes to fit)
ShardOK(b) == /\ b.kind = "unixfs" /\ b.typ = 5
              /\ b.hashOK /\ b.hasFan /\ b.pow2
              /\ b.fanout <= 1024 /\ b.fanout % 8 = 0 /\ b.bfOK

\* loadChild: the block must be stored, decode as dag-pb with decodable UnixFS data that passes ShardOK,
\* and have its parent's fanout
ChildOK(H, p, lk) == /\ lk.target # 0
                     /\ ShardOK(H[lk.target])
                     /\ H[lk.target].fanout = H[p].fanout

Bits(b) == {b.bits[j] : j \in 1 .. Len(b.bits)}        \* the trace carries the set bits as a list
OnesBefore(b, k) == Cardinality({x \in Bits(b) : x < k})

\* lookup: dg = the key's buckets at this HAMT's width (as many as 64 bits provide), d = levels consumed
RECURSIVE Lookup(_, _, _, _, _)
Lookup(H, i, dg, d, key) ==
  IF d + 1 > Len(dg) THEN [res |-> "err", link |-> 0]                       \* ErrHAMTTooDeep
  ELSE LET b == H[i]
           k == dg[d + 1] IN
       IF k \notin Bits(b) THEN [res |-> "notfound", link |-> 0]
       ELSE LET idx == OnesBefore(b, k) IN
            IF idx >= Len(b.links) THEN [res |-> "err", link |-> 0]         \* ErrInvalidChildIndex
            ELSE LET lk == b.links[idx + 1] IN
                 IF ~lk.hasName \/ lk.cls = "short" THEN [res |-> "err", link |-> 0]
                 ELSE IF lk.cls = "long"
                      THEN (IF lk.name = key /\ key # 0 THEN [res |-> "found", link |-> lk.target]
                            ELSE [res |-> "notfound", link |-> 0])
                      ELSE IF ~ChildOK(H, i, lk) THEN [res |-> "err", link |-> 0]
                           ELSE Lookup(H, lk.target, dg, d + 1, key)

\* length(): -1 stands for the error (Length() then reports 0)
RECURSIVE Len_(_, _), LenLinks(_, _, _)
Len_(H, i) == LenLinks(H, i, 1)
LenLinks(H, i, k) ==
  IF k > Len(H[i].links) THEN 0
  ELSE LET lk == H[i].links[k]
           here == IF ~lk.hasName \/ lk.cls = "short" THEN -1
                   ELSE IF lk.cls = "long" THEN 1
                   ELSE IF ~ChildOK(H, i, lk) THEN -1
                   ELSE Len_(H, lk.target)
       IN  IF here = -1 THEN -1
           ELSE LET rest == LenLinks(H, i, k + 1) IN IF rest = -1 THEN -1 ELSE here + rest
LengthReported(H, i) == LET n == Len_(H, i) IN IF n = -1 THEN 0 ELSE n

\* a full iteration, as the sequence of outcomes of the successive Next calls: "p" a pair, "e" an error.
\* A link without a usable name and a child that cannot be loaded cost one error each and the walk goes on;
\* a child shard without links yields nothing and surfaces as one over-read error.
RECURSIVE Iter(_, _), IterLinks(_, _, _)
Iter(H, i) == IterLinks(H, i, 1)
IterLinks(H, i, k) ==
  IF k > Len(H[i].links) THEN <<>>
  ELSE LET lk == H[i].links[k]
           here == IF ~lk.hasName \/ lk.cls = "short" THEN <<"e">>
                   ELSE IF lk.cls = "long" THEN <<"p">>
                   ELSE IF ~ChildOK(H, i, lk) THEN <<"e">>
                   ELSE IF Len(H[lk.target].links) = 0 THEN <<"e">>
                   ELSE Iter(H, lk.target)
       IN  here \o IterLinks(H, i, k + 1)
CountOf(s, x) == Cardinality({k \in 1 .. Len(s) : s[k] = x})
=============================================================================
