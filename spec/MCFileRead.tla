---------------------------- MODULE MCFileRead -----------------------------
EXTENDS FileRead
CONSTANTS N, W, K, LastLen
\* chunk lengths: K each, the last one LastLen
MCLens == [i \in 1 .. N |-> IF i = N THEN LastLen ELSE K]
MCB == Table(RefLayout(N, W), MCLens)
MCLen == SumSeq(MCLens)
MCContent == [i \in 1 .. MCLen |-> 10 + i]
\* boundary offsets (TLC cfg files cannot hold negative literals)
MCOffsets == {-(MCLen + 1), -MCLen, -K, -1, 0, 1, K - 1, K, K + 1, MCLen - 1, MCLen, MCLen + 1, MCLen + K}
MCKs == {0, 1, K, K + 1, MCLen + 1}
\* a reduced alphabet for longer histories
MCOffsetsSmall == {0, K + 1, MCLen - 1}
MCKsSmall == {1, K + 1}
\* positions exactly on child boundaries
MCOffsetsBoundary == {K, 2 * K, MCLen}
=============================================================================
