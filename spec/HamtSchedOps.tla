---------------------------- MODULE HamtSchedOps ----------------------------
(***************************************************************************)
(* Readers of one shared sharded-directory node at the granularity of the  *)
(* implementation's two schedule points (C17).                             *)
(*                                                                         *)
(* hamt/shardeddir.go keeps, per shard node, a cache of its child shard    *)
(* nodes and the memoised number of entries below it, both under one       *)
(* mutex.  A reader touches shared state only in short critical sections   *)
(* and - under the build tag "verif" - calls a hook at the two places      *)
(* where it has *decided* to update that state but has not done so yet:    *)
(*   "loadChild"  after a cache miss and the load of the child block,      *)
(*                before the child node is put into the parent's cache     *)
(*   "length"     after a shard's entries have been counted, before the    *)
(*                count is memoised                                        *)
(* Between two hook calls a reader runs without waiting for anybody, so a  *)
(* behaviour of G readers is a sequence of SEGMENTS: "reader g runs from   *)
(* where it is parked to its next hook call (or to its end)".  A segment   *)
(* begins with at most one write (the deferred cache / memo store) and     *)
(* continues with reads of the shared state; reads of different readers    *)
(* commute and every critical section is atomic under the mutex, so every  *)
(* fine-grained interleaving of the lock-protected steps (spec HamtConc)   *)
(* is equivalent to a sequence of segments.  The conformance harness       *)
(* installs a blocking hook and releases one reader at a time, which makes *)
(* the real readers execute exactly a given sequence of segments.          *)
(*                                                                         *)
(* S is a shard table as in HamtOps (depth-first, S[1] the root); DG[n]    *)
(* the buckets of name n.  A reader is a stack of frames [f, s, k, d]:     *)
(*   "lk"  look name k up in shard s, d levels consumed                    *)
(*   "it"  iterate shard s from its k-th link on                           *)
(*   "ln"  count shard s: k = 0 consult the memo, k >= 1 at the k-th link  *)
(*   "st"  (parked at "loadChild") store child shard s in its parent       *)
(*   "sm"  (parked at "length") memoise the count of shard s               *)
(* cache = the child shards (table indices) present in their parent's      *)
(* cache, memo = the shards whose count is memoised.                       *)
(* M = the block classes that cannot be loaded: the load is attempted (and *)
(* seen by the store), nothing is cached, and the operation fails the way  *)
(* its kind does - a lookup answers with the error, an iteration counts    *)
(* one error and goes on behind the child, a count is abandoned (Length()  *)
(* then reports 0) and memoises nothing.                                   *)
(*                                                                         *)
(* A third parking point needs no hook in the library: the harness owns    *)
(* the block store, so it can park a reader INSIDE a load ("load": the     *)
(* reader has asked for the block and not got it yet; frame "ld").  For    *)
(* the library as it stands a load touches no shared state and this only   *)
(* refines the schedules; it is what exposes shared state a change might   *)
(* put around the load (a singleflight table, say).  Load gates are on     *)
(* when the pseudo-class 0 is in M.                                        *)
(***************************************************************************)
EXTENDS Integers, Sequences, FiniteSets
LOCAL INSTANCE HamtOps

Fr(f, s, k, d) == [f |-> f, s |-> s, k |-> k, d |-> d]
NoAcc == [res |-> "none", link |-> 0, pairs |-> <<>>, errs |-> 0]

\* the program of an operation: op = [o |-> "lookup", n |-> name id] | [o |-> "iterate", n |-> 0] | [o |-> "length", n |-> 0]
StackOf(op) == CASE op.o = "lookup" -> <<Fr("lk", 1, op.n, 0)>>
                 [] op.o = "iterate" -> <<Fr("it", 1, 1, 0)>>
                 [] op.o = "length" -> <<Fr("ln", 1, 0, 0)>>

\* one segment: run the reader whose stack is stk until it parks or ends
\* result: the new stack, shared state, the blocks loaded (classes, in order), the accumulated answer, where it stopped
RECURSIVE Run(_, _, _, _, _, _, _, _)
Park(stk, cache, memo, loads, acc, at) == [stk |-> stk, cache |-> cache, memo |-> memo, loads |-> loads, acc |-> acc, at |-> at]
\* loadChild(c): a hit goes on with `cont`; a miss loads the block and parks before the store
LoadGates(M) == 0 \in M
\* the load itself: the block arrives (park before the store) or the load fails
DoLoad(S, DG, M, c, cont, rest, cache, memo, loads, acc) ==
  IF S[c].c \in M
  THEN CASE cont.f = "lk" -> Run(S, DG, M, <<>>, cache, memo, Append(loads, S[c].c), [acc EXCEPT !.res = "err"])
         [] cont.f = "it" -> Run(S, DG, M, rest, cache, memo, Append(loads, S[c].c), [acc EXCEPT !.errs = @ + 1])
         [] cont.f = "ln" -> Run(S, DG, M, <<>>, cache, memo, Append(loads, S[c].c), [acc EXCEPT !.res = "lenerr"])
  ELSE Park(<<Fr("st", c, 0, 0), cont>> \o rest, cache, memo, Append(loads, S[c].c), acc, "loadChild")
LoadChild(S, DG, M, c, cont, rest, cache, memo, loads, acc) ==
  IF c \in cache THEN Run(S, DG, M, <<cont>> \o rest, cache, memo, loads, acc)
  ELSE IF LoadGates(M) THEN Park(<<Fr("ld", c, 0, 0), cont>> \o rest, cache, memo, loads, acc, "load")
       ELSE DoLoad(S, DG, M, c, cont, rest, cache, memo, loads, acc)
Run(S, DG, M, stk, cache, memo, loads, acc) ==
  IF stk = <<>> THEN Park(stk, cache, memo, loads, acc, "done")
  ELSE LET fr == Head(stk)
           rest == Tail(stk) IN
    CASE fr.f = "st" -> Run(S, DG, M, rest, cache \cup {fr.s}, memo, loads, acc)
      [] fr.f = "ld" -> DoLoad(S, DG, M, fr.s, Head(rest), Tail(rest), cache, memo, loads, acc)
      [] fr.f = "sm" -> Run(S, DG, M, rest, cache, memo \cup {fr.s}, loads, acc)
      [] fr.f = "lk" ->
           LET k == IF fr.d + 1 > Len(DG[fr.k]) THEN 0 ELSE SlotAt(S, fr.s, DG[fr.k][fr.d + 1]) IN
           IF k = 0 THEN Run(S, DG, M, rest, cache, memo, loads, [acc EXCEPT !.res = "notfound"])
           ELSE LET sl == S[fr.s].slots[k] IN
                IF sl.t = "val"
                THEN Run(S, DG, M, rest, cache, memo, loads,
                         IF sl.name = fr.k THEN [acc EXCEPT !.res = "found", !.link = sl.link] ELSE [acc EXCEPT !.res = "notfound"])
                ELSE LoadChild(S, DG, M, sl.idx, Fr("lk", sl.idx, fr.k, fr.d + 1), rest, cache, memo, loads, acc)
      [] fr.f = "it" ->
           IF fr.k > Len(S[fr.s].slots) THEN Run(S, DG, M, rest, cache, memo, loads, acc)
           ELSE LET sl == S[fr.s].slots[fr.k]
                    here == Fr("it", fr.s, fr.k + 1, 0) IN
                IF sl.t = "val"
                THEN Run(S, DG, M, <<here>> \o rest, cache, memo, loads, [acc EXCEPT !.pairs = Append(@, <<sl.name, sl.link>>)])
                ELSE LoadChild(S, DG, M, sl.idx, Fr("it", sl.idx, 1, 0), <<here>> \o rest, cache, memo, loads, acc)
      [] fr.f = "ln" ->
           IF fr.k = 0
           THEN IF fr.s \in memo THEN Run(S, DG, M, rest, cache, memo, loads, acc)
                ELSE Run(S, DG, M, <<Fr("ln", fr.s, 1, 0)>> \o rest, cache, memo, loads, acc)
           ELSE IF fr.k > Len(S[fr.s].slots)
                THEN Park(<<Fr("sm", fr.s, 0, 0)>> \o rest, cache, memo, loads, acc, "length")
                ELSE LET sl == S[fr.s].slots[fr.k]
                         here == Fr("ln", fr.s, fr.k + 1, 0) IN
                     IF sl.t = "val" THEN Run(S, DG, M, <<here>> \o rest, cache, memo, loads, acc)
                     ELSE LoadChild(S, DG, M, sl.idx, Fr("ln", sl.idx, 0, 0), <<here>> \o rest, cache, memo, loads, acc)

\* a reader run alone to its end (the warm-up operations and the sequential answers)
RECURSIVE RunAlone(_, _, _, _, _, _, _, _)
RunAlone(S, DG, M, stk, cache, memo, loads, acc) ==
  LET r == Run(S, DG, M, stk, cache, memo, loads, acc) IN
  IF r.at = "done" THEN r ELSE RunAlone(S, DG, M, r.stk, r.cache, r.memo, r.loads, r.acc)

\* number of entries below shard i
RECURSIVE CountS(_, _), CountSlots(_, _, _)
CountS(S, i) == CountSlots(S, i, 1)
CountSlots(S, i, k) == IF k > Len(S[i].slots) THEN 0
                       ELSE (IF S[i].slots[k].t = "val" THEN 1 ELSE CountS(S, S[i].slots[k].idx)) + CountSlots(S, i, k + 1)

\* the answer an operation has when it runs alone - on any state of the caches
Alone(S, DG, M, op) == RunAlone(S, DG, M, StackOf(op), {}, {}, <<>>, NoAcc).acc
\* the answer does not depend on the shared state
AnswerOK(S, DG, M, op, acc) == acc = Alone(S, DG, M, op)
=============================================================================
