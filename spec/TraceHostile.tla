---------------------------- MODULE TraceHostile ---------------------------
(***************************************************************************)
(* Trace validation for reification (C14) and for hostile DAGs (C13).      *)
(* "reify" lines: input class, variant, result class, kind, whether the    *)
(* substrate is the original node and re-encodes to the original block.    *)
(* "hop" lines: one operation on a reified hostile node with its outcome   *)
(* (value / error / panic / budget / timeout) and the steps it took.       *)
(***************************************************************************)
EXTENDS ReifyOps, Json, IOUtils
Trace == ndJsonDeserialize(IOEnv.TRACE)
VARIABLES l,
          hm    \* the block table of the current case's latest "reify" line (HostileOps), empty when it is not modelled
tvars == <<l, hm>>
NoModel == [H |-> <<>>, root |-> 0, dg |-> <<>>, ok |-> FALSE, FH |-> <<>>, froot |-> 0, fok |-> FALSE, res |-> "none", cls |-> "none", members |-> <<>>]
TInit == l = 1 /\ hm = NoModel
IsEv(e) == l <= Len(Trace) /\ Trace[l].ev = e /\ l' = l + 1
TNext == \/ IsEv("crash") /\ UNCHANGED hm
         \/ IsEv("reset") /\ hm' = NoModel
         \/ IsEv("reify") /\ hm' = [H |-> Trace[l].H, root |-> Trace[l].hroot, dg |-> Trace[l].hdigits, ok |-> Trace[l].res = "hamtdir",
                                  FH |-> Trace[l].FH, froot |-> Trace[l].fhroot, fok |-> Trace[l].res = "file",
                                  res |-> Trace[l].res, cls |-> Trace[l].cls, members |-> Trace[l].members]
         \/ IsEv("hop") /\ UNCHANGED hm
         \/ (l = Len(Trace) + 1 /\ UNCHANGED tvars)
TraceSpec == TInit /\ [][TNext]_tvars

Has == l > 1
Ev == Trace[l - 1]
IsR == Has /\ Ev.ev = "reify"
IsH == Has /\ Ev.ev = "hop"
NoCrash == ~(l > 1 /\ Trace[l - 1].ev = "crash")   \* the code under test took the whole harness process down (driver: mark_crash)
Cond_NoPanic == NoCrash /\ ((Has /\ "e" \in DOMAIN Ev) => Ev.e \notin {"panic", "timeout", "budget"})
\* C14
Cond_C14_Typed == (IsR /\ Ev.cls \in Classes) => (Ev.res = Expected(Ev.cls) /\ (KindOf(Ev.res) # "any" => Ev.kind = KindOf(Ev.res)))
Cond_C14_Substrate == (IsR /\ IsADLResult(Ev.res)) => (Ev.subSame /\ Ev.reenc)
\* a link map (and a plain directory) is addressable by name: exactly the names its links carry are found
\* (C14 input classes only - the hostile cases have nameless / duplicated links)
Cond_C14_Addressable == (IsH /\ hm.cls \in Classes /\ hm.res \in {"linkmap", "dir"} /\ Ev.op = "lookup-string" /\ Ev.key > 0) =>
    ((Ev.info = "found") <=> (\E k \in 1 .. Len(hm.members) : hm.members[k] = Ev.key))
\* C13: every operation on every hostile structure ends in a value or an error within its budget
\* ... and reification allocates in proportion to what is stored, not to what a field claims (8 MiB + 64 x the stored bytes)
Cond_C13_Reify == IsR => (Ev.res \notin {"panic", "timeout", "budget", "other"} /\ Ev.allocKiB <= 8192 + 64 * Ev.storedKiB)
Cond_C13_Op == IsH => (Ev.out \in {"value", "error"} /\ Ev.steps <= Ev.budget + 4096)

\* beyond the listed properties: the generic node-method contract
HasADL == IsR /\ IsADLResult(Ev.res) /\ DOMAIN Ev.adl # {}
Cond_X_ADLBytes == (HasADL /\ Ev.kind = "bytes") => ADLBytesOK(Ev.adl)
Cond_X_ADLBytesLength == (HasADL /\ Ev.kind = "bytes") => ADLBytesLength(Ev.adl)
Cond_X_ADLMap == (HasADL /\ Ev.kind = "map") => ADLMapOK(Ev.adl)
HasPair == IsH /\ hm.res \in {"dir", "hamtdir", "linkmap"} /\ Ev.op = "pair" /\ Ev.info = "pair"
Cond_X_ADLPair == HasPair => (ADLKeyOK(Ev.pair.k) /\ ADLValueOK(Ev.pair.v))
Cond_X_ADLPairLength == HasPair => (ADLScalarLength(Ev.pair.k) /\ ADLScalarLength(Ev.pair.v))
\* beyond the listed properties: the outcome of every operation on a hostile sharded directory is the one the
\* transcription of the reader (HostileOps) predicts from the stored blocks
HO == INSTANCE HostileOps
Modelled == hm.root # 0 /\ Len(hm.H) > 0 /\ hm.ok
Cond_X_HamtReify == (IsR /\ Ev.hroot # 0 /\ Len(Ev.H) > 0 /\ Ev.res \in {"hamtdir", "error"}) =>
    ((Ev.res = "hamtdir") <=> (HO!ShardOK(Ev.H[Ev.hroot]) /\ (Ev.variant = "preload" => HO!Len_(Ev.H, Ev.hroot) # -1)))
Cond_X_HamtLookup == (IsH /\ Modelled /\ Ev.op = "lookup-string" /\ Ev.key > 0 /\ Ev.key <= Len(hm.dg) /\ Ev.out \in {"value", "error"}) =>
    Ev.info = HO!Lookup(hm.H, hm.root, hm.dg[Ev.key], 0, Ev.key).res
Cond_X_HamtLength == (IsH /\ Modelled /\ Ev.op = "length" /\ Ev.n >= 0) => Ev.n = HO!LengthReported(hm.H, hm.root)
Cond_X_HamtIter == (IsH /\ Modelled /\ Ev.op = "iter-map" /\ Ev.out = "value") =>
    LET r == HO!Iter(hm.H, hm.root) IN Ev.steps = Len(r) /\ Ev.errs = HO!CountOf(r, "e")
\* the exported constructors called directly on a dag-pb root: the HAMT constructor accepts exactly the shards the
\* transcription accepts (AttemptHAMTShardFromNode also when the library's own decoder refuses the data: an error),
\* the plain-directory constructor exactly the roots of type Directory
HasCtor == IsR /\ DOMAIN Ev.ctor # {}
Cond_X_Ctor == HasCtor =>
    /\ (Ev.ctor.attempt = "ok") <=> HO!ShardOK(Ev.ctor.rootE)
    /\ Ev.ctor.shard # "na" => ((Ev.ctor.shard = "ok") <=> HO!ShardOK(Ev.ctor.rootE))
    /\ Ev.ctor.basicdir # "na" => ((Ev.ctor.basicdir = "ok") <=> (Ev.ctor.rootE.kind = "unixfs" /\ Ev.ctor.rootE.typ = 1))

\* ... and of reading a hostile file DAG as a whole (FileHostileOps): lazy reification of a file root always succeeds,
\* the preloading one (of a root of type File) exactly when reading everything succeeds; AsBytes delivers the predicted number of bytes or fails
FO == INSTANCE FileHostileOps
Cond_X_FileReify == (IsR /\ Ev.fhroot # 0 /\ Ev.res \in {"file", "error"}) =>
    \* (the preloading reifier reads a root of type File through; a root of type Raw is opened lazily even there)
    ((Ev.res = "file") <=> ((Ev.variant = "preload" /\ Ev.FH[Ev.fhroot].typ = 2) => FO!ReadAll(Ev.FH, Ev.fhroot).ok))
Cond_X_FileBytes == (IsH /\ hm.froot # 0 /\ hm.fok /\ Ev.op = "asbytes" /\ Ev.out \in {"value", "error"}) =>
    LET r == FO!ReadAll(hm.FH, hm.froot) IN
    /\ (Ev.out = "value") <=> r.ok
    /\ r.ok => Ev.steps = r.n

Chk(nm, c) == c \/ PrintT(<<"VIOL", nm, l - 1>>)
Inv_NoPanic == Chk("Inv_NoPanic", Cond_NoPanic)
Inv_C14_Typed_T == Chk("Inv_C14_Typed_T", Cond_C14_Typed)
Inv_C14_Addressable == Chk("Inv_C14_Addressable", Cond_C14_Addressable)
Inv_C14_Substrate == Chk("Inv_C14_Substrate", Cond_C14_Substrate)
Inv_C13_Reify == Chk("Inv_C13_Reify", Cond_C13_Reify)
Inv_C13_Op == Chk("Inv_C13_Op", Cond_C13_Op)
Inv_X_HamtReify == Chk("Inv_X_HamtReify", Cond_X_HamtReify)
Inv_X_HamtLookup == Chk("Inv_X_HamtLookup", Cond_X_HamtLookup)
Inv_X_HamtLength == Chk("Inv_X_HamtLength", Cond_X_HamtLength)
Inv_X_HamtIter == Chk("Inv_X_HamtIter", Cond_X_HamtIter)
Inv_X_Ctor == Chk("Inv_X_Ctor", Cond_X_Ctor)
Inv_X_FileReify == Chk("Inv_X_FileReify", Cond_X_FileReify)
Inv_X_FileBytes == Chk("Inv_X_FileBytes", Cond_X_FileBytes)
Inv_X_ADLBytes == Chk("Inv_X_ADLBytes", Cond_X_ADLBytes)
Inv_X_ADLBytesLength == Chk("Inv_X_ADLBytesLength", Cond_X_ADLBytesLength)
Inv_X_ADLMap == Chk("Inv_X_ADLMap", Cond_X_ADLMap)
Inv_X_ADLPair == Chk("Inv_X_ADLPair", Cond_X_ADLPair)
Inv_X_ADLPairLength == Chk("Inv_X_ADLPairLength", Cond_X_ADLPairLength)
Alias == [l |-> l]
=============================================================================
