---------------------------- MODULE TraceHostile ---------------------------
(***************************************************************************)
(* Trace validation for reification (C14) and for hostile DAGs (C13).      *)
(* "reify" lines: input class, variant, result class, kind, whether the    *)
(* substrate is the original node and re-encodes to the original block.    *)
(* "hop" lines: one operation on a reified hostile node with its outcome   *)
(* (value / error / panic / budget / timeout) and the steps it took.       *)
(***************************************************************************)
EXTENDS ReifyOps, Json, IOUtils
Trace == ndJsonDeserialize(IOEnv.TRACE)
VARIABLES l
tvars == <<l>>
TInit == l = 1
IsEv(e) == l <= Len(Trace) /\ Trace[l].ev = e /\ l' = l + 1
TNext == IsEv("crash") \/ IsEv("reset") \/ IsEv("reify") \/ IsEv("hop") \/ (l = Len(Trace) + 1 /\ UNCHANGED l)
TraceSpec == TInit /\ [][TNext]_tvars

Has == l > 1
Ev == Trace[l - 1]
IsR == Has /\ Ev.ev = "reify"
IsH == Has /\ Ev.ev = "hop"
NoCrash == ~(l > 1 /\ Trace[l - 1].ev = "crash")   \* the code under test took the whole harness process down (driver: mark_crash)
Cond_NoPanic == NoCrash /\ ((Has /\ "e" \in DOMAIN Ev) => Ev.e \notin {"panic", "timeout", "budget"})
\* C14
Cond_C14_Typed == (IsR /\ Ev.cls \in Classes) => (Ev.res = Expected(Ev.cls) /\ (KindOf(Ev.res) # "any" => Ev.kind = KindOf(Ev.res)))
Cond_C14_Substrate == (IsR /\ IsADLResult(Ev.res)) => (Ev.subSame /\ Ev.reenc)
\* C13: every operation on every hostile structure ends in a value or an error within its budget
Cond_C13_Reify == IsR => Ev.res \notin {"panic", "timeout", "budget", "other"}
Cond_C13_Op == IsH => (Ev.out \in {"value", "error"} /\ Ev.steps <= Ev.budget + 4096)

\* beyond the listed properties: the generic node-method contract
HasADL == IsR /\ IsADLResult(Ev.res) /\ DOMAIN Ev.adl # {}
Cond_X_ADLBytes == (HasADL /\ Ev.kind = "bytes") => ADLBytesOK(Ev.adl)
Cond_X_ADLBytesLength == (HasADL /\ Ev.kind = "bytes") => ADLBytesLength(Ev.adl)
Cond_X_ADLMap == (HasADL /\ Ev.kind = "map") => ADLMapOK(Ev.adl)
Chk(nm, c) == c \/ PrintT(<<"VIOL", nm, l - 1>>)
Inv_NoPanic == Chk("Inv_NoPanic", Cond_NoPanic)
Inv_C14_Typed_T == Chk("Inv_C14_Typed_T", Cond_C14_Typed)
Inv_C14_Substrate == Chk("Inv_C14_Substrate", Cond_C14_Substrate)
Inv_C13_Reify == Chk("Inv_C13_Reify", Cond_C13_Reify)
Inv_C13_Op == Chk("Inv_C13_Op", Cond_C13_Op)
Inv_X_ADLBytes == Chk("Inv_X_ADLBytes", Cond_X_ADLBytes)
Inv_X_ADLBytesLength == Chk("Inv_X_ADLBytesLength", Cond_X_ADLBytesLength)
Inv_X_ADLMap == Chk("Inv_X_ADLMap", Cond_X_ADLMap)
Alias == [l |-> l]
=============================================================================
