----------------------------- MODULE FileRead ------------------------------
(***************************************************************************)
(* Readers over one file DAG.                                              *)
(*                                                                         *)
(* Contract level (what C01/C04/C05/C12/C20 state): every reader r has a   *)
(* position pos[r]; Seek moves it (or fails before offset zero and leaves  *)
(* it), Read returns the content at the position.  Implementation level    *)
(* (file/shard.go, file/deferred.go): a reader additionally holds a        *)
(* *cursor* - the chain of blocks it has materialised from the root to the *)
(* current leaf (shardNodeReader.rdr = a MultiReader of deferredReaders).  *)
(* Seek drops the cursor; a Read with no cursor rebuilds it by skipping    *)
(* children by their declared sizes and loading exactly the blocks on the  *)
(* path to the leaf that holds the position; one Read returns bytes from   *)
(* one leaf only (io.MultiReader returns after the first non-empty read).  *)
(* `last` records the outcome of the latest step so that the contract can  *)
(* be stated as state invariants; `hist` is the operation history (used to *)
(* export every explored history as a test case for the real reader).      *)
(***************************************************************************)
EXTENDS FileOps, TLC, Json
CONSTANTS Readers, B, Content, Offsets, Ks, Missing, Depth
VARIABLES pos, cur, last, hist, miss   \* miss: blocks currently unavailable (starts as Missing, emptied by Heal)
vars == <<pos, cur, last, hist, miss>>

L == Len(Content)
Whences == {SeekStart, SeekCurrent, SeekEnd}
NoOp == [op |-> "none", r |-> 0, n |-> 0, e |-> "nil", data |-> <<>>, loads |-> <<>>, pre |-> 0, k |-> 0, ret |-> 0]

Init == /\ pos = [r \in Readers |-> 0]
        /\ cur = [r \in Readers |-> {}]
        /\ last = NoOp
        /\ hist = <<>>
        /\ miss = Missing

Seek(r, off, wh) ==
  LET t == SeekTarget(pos[r], off, wh, L) IN
  /\ Len(hist) < Depth
  /\ cur' = [cur EXCEPT ![r] = {}]
  /\ IF t < 0
     THEN /\ UNCHANGED pos
          /\ last' = [NoOp EXCEPT !.op = "seek", !.r = r, !.e = "err", !.pre = pos[r], !.ret = pos[r]]
     ELSE /\ pos' = [pos EXCEPT ![r] = t]
          /\ last' = [NoOp EXCEPT !.op = "seek", !.r = r, !.pre = pos[r], !.ret = t]
  /\ hist' = Append(hist, <<"seek", r, off, wh>>)
  /\ UNCHANGED miss

\* blocks on the path to leaf i that are not yet in the cursor, root-to-leaf;
\* the root itself (index 1) is the node the reader was obtained from
NewLoads(r, i) == SelectSeq(PathTo(B, i), LAMBDA j : j # 1 /\ j \notin cur[r])
FirstMissing(s) == IF \E k \in 1 .. Len(s) : B[s[k]].c \in miss
                   THEN CHOOSE k \in 1 .. Len(s) : B[s[k]].c \in miss /\ \A m \in 1 .. (k-1) : B[s[m]].c \notin miss
                   ELSE 0

\* the environment makes every block available again (retrieval resumes); readers keep their state
Heal == /\ Len(hist) < Depth /\ miss # {}
        /\ miss' = {} /\ hist' = Append(hist, <<"heal">>)
        /\ last' = NoOp
        /\ UNCHANGED <<pos, cur>>

Read(r, k) ==
  /\ Len(hist) < Depth
  /\ UNCHANGED miss
  /\ hist' = Append(hist, <<"read", r, k>>)
  /\ IF pos[r] >= L
     THEN /\ UNCHANGED <<pos, cur>>
          /\ last' = [NoOp EXCEPT !.op = "read", !.r = r, !.e = "eof", !.pre = pos[r], !.k = k]
     ELSE LET leaf == LeafAt(B, pos[r])
              nl   == NewLoads(r, leaf)
              fm   == FirstMissing(nl)
          IN  IF fm # 0
              THEN \* the load of a needed block fails: error, position unchanged,
                   \* blocks before it stay materialised
                   /\ UNCHANGED pos
                   /\ cur' = [cur EXCEPT ![r] = @ \cup {nl[m] : m \in 1 .. (fm - 1)}]
                   /\ last' = [NoOp EXCEPT !.op = "read", !.r = r, !.e = "err", !.pre = pos[r], !.k = k,
                                           !.loads = SubSeq(nl, 1, fm)]
              ELSE LET n == Min(k, B[leaf].hi - pos[r]) IN
                   /\ pos' = [pos EXCEPT ![r] = @ + n]
                   /\ cur' = [cur EXCEPT ![r] = SeqToSet(PathTo(B, leaf))]
                   /\ last' = [NoOp EXCEPT !.op = "read", !.r = r, !.n = n, !.pre = pos[r], !.k = k,
                                           !.data = Slice(Content, pos[r], n), !.loads = nl]

Next == \/ \E r \in Readers : \/ \E off \in Offsets, wh \in Whences : Seek(r, off, wh)
                              \/ \E k \in Ks : Read(r, k)
        \/ Heal
Spec == Init /\ [][Next]_vars

(***************************************************************************)
(* Contract invariants (the implementation-shaped machine refines them)    *)
(***************************************************************************)
Inv_C04_PosNonNeg == \A r \in Readers : pos[r] >= 0
Inv_C04_Seek == last.op = "seek" =>
                  IF last.e = "err" THEN pos[last.r] = last.pre
                  ELSE last.ret = pos[last.r]
Inv_C04_Read == last.op = "read" =>
                  /\ ReadShapeOK(last.pre, last.k, last.n, last.e, L)
                  /\ last.data = Slice(Content, last.pre, last.n)
                  /\ pos[last.r] = last.pre + last.n
Inv_C05_NoOverfetch == last.op = "read" =>
                  \A m \in 1 .. Len(last.loads) :
                      last.loads[m] \in NeededIdx(B, last.pre, last.pre + Max(last.k, 1))
Inv_C12_ErrIffMissing == last.op = "read" =>
                  /\ last.e = "err" => \E i \in NeededIdx(B, last.pre, last.pre + 1) : B[i].c \in miss
                  /\ last.e = "eof" => last.pre >= L
\* once nothing is missing no read fails: an earlier load error leaves the reader usable
Inv_C12_HealedReadsSucceed == (last.op = "read" /\ miss = {}) => last.e # "err"
\* reader independence: a step of one reader leaves the others alone
Act_C04_Independent == [][\A r \in Readers : (last'.r # r) => (pos'[r] = pos[r] /\ cur'[r] = cur[r])]_vars

\* export: every maximal history as JSON (driver parses stdout)
Export == (Len(hist) = Depth) => PrintT(<<"CASE", ToJson(hist)>>)
=============================================================================
