----------------------------- MODULE FixtureOps ----------------------------
(***************************************************************************)
(* Entry trees of the test-fixture generators (C19).  A tree node is       *)
(* [name, path, kind, root, hash, kids]: kind "file" or "dir", root the    *)
(* CID (text), hash a digest of a file's content, kids sorted by name.     *)
(***************************************************************************)
EXTENDS Integers, Sequences, FiniteSets
\* the described tree equals what reading the stored DAG back yields
RECURSIVE SameEntries(_, _)
SameEntries(d, s) ==
  /\ d.kind = s.kind /\ d.root = s.root
  /\ d.kind = "file" => d.hash = s.hash
  /\ d.kind = "dir" => /\ Len(d.kids) = Len(s.kids)
                       /\ \A k \in 1 .. Len(d.kids) : d.kids[k].name = s.kids[k].name /\ SameEntries(d.kids[k], s.kids[k])
\* sibling names are non-empty and unique at every level
RECURSIVE SiblingsOK(_)
SiblingsOK(d) == d.kind = "dir" =>
  /\ \A k \in 1 .. Len(d.kids) : d.kids[k].name # ""
  /\ \A i, j \in 1 .. Len(d.kids) : i # j => d.kids[i].name # d.kids[j].name
  /\ \A k \in 1 .. Len(d.kids) : SiblingsOK(d.kids[k])
\* each entry's path is its parent's path plus its name
RECURSIVE PathsComposed(_)
PathsComposed(d) == d.kind = "dir" =>
  \A k \in 1 .. Len(d.kids) : d.kids[k].path = d.path \o "/" \o d.kids[k].name /\ PathsComposed(d.kids[k])
\* two trees carry the same paths at every level (both with kids sorted by name)
RECURSIVE SamePaths(_, _)
SamePaths(d, s) == /\ d.path = s.path
                   /\ Len(d.kids) = Len(s.kids)
                   /\ \A k \in 1 .. Len(d.kids) : SamePaths(d.kids[k], s.kids[k])
=============================================================================
