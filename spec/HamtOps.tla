------------------------------ MODULE HamtOps ------------------------------
(***************************************************************************)
(* Pure operators for HAMT-sharded directories, shared by the model-checked*)
(* machines (Hamt, HamtRef) and by the trace specifications (TraceDir).    *)
(*                                                                         *)
(* A name is an abstract value with a digit path dig[name] : a sequence of *)
(* bucket indices in 0..F-1, most significant first (the real digits are   *)
(* successive log2(F)-bit slices of the murmur3-64 hash of the name, see   *)
(* HashBits.tla).  A trie is a function from buckets to slots; a slot is   *)
(*   [t |-> "val", name |-> n, kid |-> <<>>]   an entry of the directory   *)
(*   [t |-> "shard", name |-> NoName, kid |-> <<trie>>]   a child shard    *)
(* (kid is a 0/1-element sequence so that both slot kinds are records of   *)
(* the same shape).                                                        *)
(***************************************************************************)
EXTENDS Integers, Sequences, FiniteSets

NoName == -1
ValSlot(n)   == [t |-> "val", name |-> n, kid |-> <<>>]
ShardSlot(T) == [t |-> "shard", name |-> NoName, kid |-> <<T>>]
EmptyTrie == [b \in {} |-> ValSlot(NoName)]

(***************************************************************************)
(* The canonical trie of a set of names: a bucket holding one name is a    *)
(* value slot, a bucket holding several is a child shard one level deeper. *)
(***************************************************************************)
RECURSIVE Canon(_, _, _)
Canon(S, d, dig) ==
  LET bs == {dig[n][d + 1] : n \in S}
  IN  [b \in bs |->
         LET sub == {n \in S : dig[n][d + 1] = b}
         IN  IF Cardinality(sub) = 1 THEN ValSlot(CHOOSE n \in sub : TRUE)
             ELSE ShardSlot(Canon(sub, d + 1, dig))]

(***************************************************************************)
(* Builder insertion: transcription of data/builder/dirshard.go shard.add  *)
(***************************************************************************)
RECURSIVE Add(_, _, _, _)
Add(T, n, d, dig) ==
  LET b == dig[n][d + 1] IN
  IF b \notin DOMAIN T
  THEN [x \in DOMAIN T \cup {b} |-> IF x = b THEN ValSlot(n) ELSE T[x]]
  ELSE IF T[b].t = "shard"
       THEN [T EXCEPT ![b] = ShardSlot(Add(T[b].kid[1], n, d + 1, dig))]
       ELSE LET first == Add(EmptyTrie, T[b].name, d + 1, dig)
            IN  [T EXCEPT ![b] = ShardSlot(Add(first, n, d + 1, dig))]

(***************************************************************************)
(* Reference mutation: transcription of boxo unixfs/hamt swapValue for     *)
(* Set (value # nil) and Remove (value = nil), including the rule that a   *)
(* child shard left with a single value entry is folded into its parent.   *)
(***************************************************************************)
RECURSIVE RefSet(_, _, _, _)
RefSet(T, n, d, dig) ==
  LET b == dig[n][d + 1] IN
  IF b \notin DOMAIN T
  THEN [x \in DOMAIN T \cup {b} |-> IF x = b THEN ValSlot(n) ELSE T[x]]
  ELSE IF T[b].t = "shard"
       THEN [T EXCEPT ![b] = ShardSlot(RefSet(T[b].kid[1], n, d + 1, dig))]
       ELSE IF T[b].name = n THEN T          \* replace the value of an existing key
            ELSE LET first == RefSet(EmptyTrie, T[b].name, d + 1, dig)
                 IN  [T EXCEPT ![b] = ShardSlot(RefSet(first, n, d + 1, dig))]

Without(T, b) == [x \in DOMAIN T \ {b} |-> T[x]]
RECURSIVE RefRemove(_, _, _, _)
RefRemove(T, n, d, dig) ==
  LET b == dig[n][d + 1] IN
  IF b \notin DOMAIN T THEN T
  ELSE IF T[b].t = "val"
       THEN IF T[b].name = n THEN Without(T, b) ELSE T
       ELSE LET c == RefRemove(T[b].kid[1], n, d + 1, dig)
            IN  IF Cardinality(DOMAIN c) = 0 THEN Without(T, b)
                ELSE IF Cardinality(DOMAIN c) = 1 /\ c[CHOOSE x \in DOMAIN c : TRUE].t = "val"
                     THEN [T EXCEPT ![b] = c[CHOOSE x \in DOMAIN c : TRUE]]
                     ELSE [T EXCEPT ![b] = ShardSlot(c)]

(***************************************************************************)
(* Observers                                                               *)
(***************************************************************************)
RECURSIVE Names(_)
Names(T) == UNION {IF T[b].t = "val" THEN {T[b].name} ELSE Names(T[b].kid[1]) : b \in DOMAIN T}

RECURSIVE ShardCount(_)
SumSet(S, f(_)) == LET RECURSIVE Sm(_)
                       Sm(X) == IF X = {} THEN 0 ELSE LET x == CHOOSE y \in X : TRUE IN f(x) + Sm(X \ {x})
                   IN Sm(S)
ShardCount(T) == 1 + SumSet({b \in DOMAIN T : T[b].t = "shard"}, LAMBDA b : ShardCount(T[b].kid[1]))

\* lookup result on a trie: "found"/"notfound" and the number of child shards descended into
RECURSIVE LookupT(_, _, _, _)
LookupT(T, n, d, dig) ==
  LET b == dig[n][d + 1] IN
  IF b \notin DOMAIN T THEN [res |-> "notfound", depth |-> d]
  ELSE IF T[b].t = "val" THEN [res |-> IF T[b].name = n THEN "found" ELSE "notfound", depth |-> d]
       ELSE LookupT(T[b].kid[1], n, d + 1, dig)

\* buckets of a trie in ascending order (= stored link order: dag-pb sorts links
\* by name and every link name starts with the fixed-width hex bucket index)
RECURSIVE SortedSeq(_)
SortedSeq(S) == IF S = {} THEN <<>>
                ELSE LET m == CHOOSE x \in S : \A y \in S : x <= y IN <<m>> \o SortedSeq(S \ {m})

\* entries in iteration order (depth-first, link order)
RECURSIVE IterT(_), IterSlots(_, _)
IterT(T) == IterSlots(T, SortedSeq(DOMAIN T))
IterSlots(T, bs) == IF Len(bs) = 0 THEN <<>>
                    ELSE (IF T[Head(bs)].t = "val" THEN <<T[Head(bs)].name>> ELSE IterT(T[Head(bs)].kid[1]))
                         \o IterSlots(T, Tail(bs))

(***************************************************************************)
(* Shard tables: a stored HAMT as the independent walker sees it.          *)
(* S[i] = [parent |-> j, c |-> block class, slots |-> <<slot>>] in         *)
(* depth-first pre-order, S[1] the root; a slot is                         *)
(*   [b |-> bucket, t |-> "val", name |-> id, link |-> class, idx |-> 0]   *)
(*   [b |-> bucket, t |-> "shard", name |-> 0, link |-> class, idx |-> i]  *)
(* in stored link order.                                                   *)
(***************************************************************************)
SIdx(S) == 1 .. Len(S)
SlotAt(S, i, b) == LET ks == {k \in 1 .. Len(S[i].slots) : S[i].slots[k].b = b}
                   IN  IF ks = {} THEN 0 ELSE CHOOSE k \in ks : TRUE

\* the sequence of shard indices a lookup with digit path dg visits, and its result
RECURSIVE LookupS(_, _, _, _, _)
LookupS(S, i, dg, d, name) ==
  LET k == SlotAt(S, i, dg[d + 1]) IN
  IF k = 0 THEN [res |-> "notfound", link |-> 0, path |-> <<i>>]
  ELSE LET s == S[i].slots[k] IN
       IF s.t = "val"
       THEN [res |-> IF s.name = name THEN "found" ELSE "notfound",
             link |-> IF s.name = name THEN s.link ELSE 0, path |-> <<i>>]
       ELSE LET r == LookupS(S, s.idx, dg, d + 1, name)
            IN  [res |-> r.res, link |-> r.link, path |-> <<i>> \o r.path]

\* entries <<name, link>> in depth-first link order, skipping subtrees rooted at
\* shards whose class is in `miss`; errs = number of such shards met
RECURSIVE IterS(_, _, _), IterSSlots(_, _, _, _)
IterS(S, i, miss) == IterSSlots(S, i, 1, miss)
IterSSlots(S, i, k, miss) ==
  IF k > Len(S[i].slots) THEN [pairs |-> <<>>, errs |-> 0, shards |-> <<>>]
  ELSE LET s    == S[i].slots[k]
           rest == IterSSlots(S, i, k + 1, miss)
       IN  IF s.t = "val"
           THEN [pairs |-> <<<<s.name, s.link>>>> \o rest.pairs, errs |-> rest.errs, shards |-> rest.shards]
           ELSE IF s.link \in miss
                THEN [pairs |-> rest.pairs, errs |-> 1 + rest.errs, shards |-> <<s.link>> \o rest.shards]
                ELSE LET sub == IterS(S, s.idx, miss)
                     IN  [pairs |-> sub.pairs \o rest.pairs, errs |-> sub.errs + rest.errs,
                          shards |-> <<s.link>> \o sub.shards \o rest.shards]

\* the trie denoted by a shard table (to compare a stored HAMT with Canon)
RECURSIVE TrieOf(_, _)
TrieOf(S, i) ==
  [b \in {S[i].slots[k].b : k \in 1 .. Len(S[i].slots)} |->
      LET s == S[i].slots[SlotAt(S, i, b)]
      IN  IF s.t = "val" THEN ValSlot(s.name) ELSE ShardSlot(TrieOf(S, s.idx))]

ShardTableWF(S) ==
  /\ Len(S) >= 1 /\ S[1].parent = 0
  /\ \A i \in SIdx(S) :
       /\ i > 1 => (S[i].parent >= 1 /\ S[i].parent < i)
       /\ \A k \in 1 .. Len(S[i].slots) :
            LET s == S[i].slots[k] IN
            /\ s.t = "shard" => (s.idx > i /\ s.idx <= Len(S) /\ S[s.idx].parent = i /\ S[s.idx].c = s.link)
            /\ \A k2 \in 1 .. Len(S[i].slots) : k2 # k => S[i].slots[k2].b # s.b
=============================================================================
