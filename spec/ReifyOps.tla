------------------------------- MODULE ReifyOps -----------------------------
(***************************************************************************)
(* Reification dispatch (reification.go doReify) as a total function from  *)
(* input classes to result classes, for the lazy and the preload variant.  *)
(*                                                                         *)
(* Input classes                                                           *)
(*   nonpb     any node that is not a dag-pb node                          *)
(*   nodata    dag-pb without a Data field                                 *)
(*   garbage   dag-pb whose Data is not a decodable UnixFS message         *)
(*   file      UnixFS type Raw(0) or File(2), with or without links        *)
(*   dir       UnixFS type Directory(1)                                    *)
(*   linkmap   UnixFS type Metadata(3) or Symlink(4)                       *)
(*   hamt      UnixFS type HAMTShard(5) with valid parameters              *)
(*   badhamt   HAMTShard with an unsupported hash, a fanout that is        *)
(*             absent / not a power of two / above 1024, an oversized      *)
(*             bitfield                                                    *)
(*   badtype   a type outside 0..5                                         *)
(***************************************************************************)
EXTENDS Integers, Sequences, FiniteSets, TLC
Classes == {"nonpb", "nodata", "garbage", "file", "dir", "linkmap", "hamt", "badhamt", "badtype"}
Variants == {"reify", "preload"}

\* transcription of doReify: each guard in source order
PbNode(c)      == c # "nonpb"
HasData(c)     == c \notin {"nonpb", "nodata"}
Decodes(c)     == c \notin {"nonpb", "nodata", "garbage"}
TypeKnown(c)   == c \in {"file", "dir", "linkmap", "hamt", "badhamt"}
Result(c, v) ==
  IF ~PbNode(c) THEN "same"
  ELSE IF ~HasData(c) THEN "linkmap"
  ELSE IF ~Decodes(c) THEN "linkmap"
  ELSE IF ~TypeKnown(c) THEN "error"
  ELSE CASE c = "file" -> "file" [] c = "dir" -> "dir" [] c = "linkmap" -> "linkmap"
         [] c = "hamt" -> "hamtdir" [] c = "badhamt" -> "error"

\* what C14 states
Expected(c) == CASE c = "nonpb" -> "same"
                 [] c \in {"nodata", "garbage", "linkmap"} -> "linkmap"
                 [] c = "file" -> "file" [] c = "dir" -> "dir" [] c = "hamt" -> "hamtdir"
                 [] c \in {"badhamt", "badtype"} -> "error"
KindOf(r) == CASE r = "file" -> "bytes" [] r \in {"dir", "hamtdir", "linkmap"} -> "map" [] OTHER -> "any"
IsADLResult(r) == r \in {"file", "dir", "hamtdir", "linkmap"}

(***************************************************************************)
(* Beyond the listed properties: the generic ipld Node method contract of  *)
(* the reified nodes (datamodel.Node documentation): scalar accessors of   *)
(* another kind fail, a bytes node has no iterators and reports length -1, *)
(* a map node has a map iterator and no list iterator, nothing is null or  *)
(* absent.  `a` is the record of observed outcomes.                        *)
(***************************************************************************)
ADLCommonOK(a) == /\ a.asbool = "err" /\ a.asint = "err" /\ a.asfloat = "err" /\ a.asstring = "err" /\ a.aslink = "err"
                  /\ ~a.isnull /\ ~a.isabsent /\ a.listiter = "nil" /\ a.idx0 = "err"
ADLBytesOK(a) == ADLCommonOK(a) /\ a.asbytes = "ok" /\ a.mapiter = "nil"
ADLBytesLength(a) == a.len = -1
ADLMapOK(a) == ADLCommonOK(a) /\ a.asbytes = "err" /\ a.mapiter = "non" /\ a.len >= 0
\* the key and the value of a yielded pair are nodes in their own right: a string and a link
ADLScalarOK(a) == /\ ~a.isnull /\ ~a.isabsent /\ a.listiter = "nil" /\ a.mapiter = "nil" /\ a.idx0 = "err" /\ a.lookups = "err"
                  /\ a.asbool = "err" /\ a.asint = "err" /\ a.asfloat = "err" /\ a.asbytes = "err" /\ a.proto
ADLKeyOK(a) == ADLScalarOK(a) /\ a.kind = "string" /\ a.asstring = "ok" /\ a.aslink = "err"
ADLValueOK(a) == ADLScalarOK(a) /\ a.kind = "link" /\ a.aslink = "ok" /\ a.asstring = "err"
ADLScalarLength(a) == a.len = -1

=============================================================================
