----------------------------- MODULE TraceImport ---------------------------
(* Trace validation for the recursive importer: the on-disk tree the harness *)
(* materialised against the independent walk of the DAG the importer stored. *)
EXTENDS ImportOps, TLC, Json, IOUtils
Trace == ndJsonDeserialize(IOEnv.TRACE)
VARIABLES l
vars == <<l>>
Init == l = 1
IsEv(e) == l <= Len(Trace) /\ Trace[l].ev = e /\ l' = l + 1
Next == IsEv("crash") \/ IsEv("reset") \/ IsEv("import") \/ (l = Len(Trace) + 1 /\ UNCHANGED l)
TraceSpec == Init /\ [][Next]_vars
Has == l > 1
Ev == Trace[l - 1]
IsI == Has /\ Ev.ev = "import"
NoCrash == ~(l > 1 /\ Trace[l - 1].ev = "crash")   \* the code under test took the whole harness process down (driver: mark_crash)
Cond_NoPanic == NoCrash /\ (IsI => Ev.e # "panic")
Cond_NoHang == IsI => Ev.e # "hang"    \* the importer returns (a tree with a fifo is *rejected*, not waited on)
Cond_Harness_Walk == IsI => Ev.walkOK
Cond_C18_Reject == IsI => ((Ev.e # "nil") <=> Ev.hasOther) /\ (Ev.e # "nil" => ~Ev.link)
Cond_C18_Tree == (IsI /\ Ev.e = "nil" /\ ~Ev.big) => (Ev.link /\ SameTree(Ev["in"], Ev.out))
Cond_C18_Shard == (IsI /\ Ev.e = "nil") => ShardRule(Ev.out)
Cond_C18_Big == (IsI /\ Ev.big) => (Ev.e = "nil" /\ Ev.bigSame)
Chk(nm, c) == c \/ PrintT(<<"VIOL", nm, l - 1>>)
Inv_NoPanic == Chk("Inv_NoPanic", Cond_NoPanic)
Inv_NoHang == Chk("Inv_NoHang", Cond_NoHang)
Inv_Harness_Walk == Chk("Inv_Harness_Walk", Cond_Harness_Walk)
Inv_C18_Reject == Chk("Inv_C18_Reject", Cond_C18_Reject)
Inv_C18_Tree == Chk("Inv_C18_Tree", Cond_C18_Tree)
Inv_C18_Shard == Chk("Inv_C18_Shard", Cond_C18_Shard)
Inv_C18_Big == Chk("Inv_C18_Big", Cond_C18_Big)
Alias == [l |-> l]
=============================================================================
