SPECIFICATION Spec
CONSTANTS
  MaxN = 40
  Widths = {2,3,4}
  Collapse = "seeded"
INVARIANTS Inv_C07_Shape Inv_C01_Flatten Inv_C16_NoDangling Inv_C16_Result Inv_C11_Sizes
PROPERTIES Terminates
CHECK_DEADLOCK FALSE
