SPECIFICATION Spec
CONSTANT MaxLen = 2
INVARIANTS Inv_X_BuilderSane
CHECK_DEADLOCK FALSE
