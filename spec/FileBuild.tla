----------------------------- MODULE FileBuild -----------------------------
(***************************************************************************)
(* The file builder as a machine over its write sequence.                  *)
(*                                                                         *)
(* One behaviour = one build of an n-chunk file at link width w, with an   *)
(* optional injected write failure at the failAt-th commit.  The tree the  *)
(* builder produces is BuilderLayout(n, w, Collapse) (transcribed from     *)
(* data/builder/file.go in FileOps); blocks are committed children-first   *)
(* (sizedStore is called after the recursive calls returned), i.e. in      *)
(* post-order.  Properties:                                                *)
(*   C07  the tree equals the reference importer's tree for every (n, w)   *)
(*   C01  its leaves are the chunks 1..n in order                          *)
(*   C16  no committed block links to an uncommitted one, at every prefix  *)
(*        of the write sequence; a link is returned only after the whole   *)
(*        DAG was committed and never together with an error               *)
(*   C11  declared byte sizes add up                                       *)
(***************************************************************************)
EXTENDS FileOps, TLC
CONSTANTS MaxN, Widths, Collapse
VARIABLES n, w, order, done, failAt, result
vars == <<n, w, order, done, failAt, result>>

Layout == BuilderLayout(n, w, Collapse)

Init == /\ n \in 0 .. MaxN /\ w \in Widths
        /\ order = PostOrder(BuilderLayout(n, w, Collapse))
        /\ failAt \in 0 .. Len(order)
        /\ done = 0 /\ result = "running"

Commit == /\ result = "running" /\ done < Len(order)
          /\ IF failAt = done + 1
             THEN result' = "error" /\ UNCHANGED done
             ELSE done' = done + 1 /\ UNCHANGED result
          /\ UNCHANGED <<n, w, order, failAt>>

Finish == /\ result = "running" /\ done = Len(order)
          /\ result' = "link"
          /\ UNCHANGED <<n, w, order, done, failAt>>

Next == Commit \/ Finish
Spec == Init /\ [][Next]_vars /\ WF_vars(Next)

Committed == {order[j] : j \in 1 .. done}

Inv_C07_Shape == Layout = RefLayout(n, w)
Inv_C01_Flatten == Flatten(Layout) = [i \in 1 .. n |-> i]
Inv_C16_NoDangling ==
  \A j \in 1 .. done : \A k \in 1 .. Len(order[j].kids) :
      \E i \in 1 .. (j - 1) : order[i] = order[j].kids[k]
Inv_C16_Result ==
  /\ result = "link"  => (done = Len(order) /\ failAt = 0)
  /\ result = "error" => failAt # 0
  /\ failAt # 0 => result # "link"
Inv_C11_Sizes ==
  LET lens == [i \in 1 .. n |-> 1 + (i % 3)]
  IN  /\ ByteSize(Layout, lens) = SumSeq(lens)
      /\ \A j \in 1 .. Len(order) :
            Len(order[j].kids) > 0 =>
              ByteSize(order[j], lens) =
                SumSeq([k \in 1 .. Len(order[j].kids) |-> ByteSize(order[j].kids[k], lens)])
\* beyond the listed properties: the transcribed trickle layout also holds the chunks 1..n in order
Inv_X_TrickleFlatten == Flatten(RefTrickle(n, w)) = [i \in 1 .. n |-> i]
Terminates == <>(result # "running")
=============================================================================
