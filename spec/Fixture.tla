------------------------------ MODULE Fixture ------------------------------
(***************************************************************************)
(* A generator of described trees as a machine: a directory generator      *)
(* draws names for its children (fresh at each level) and composes paths;  *)
(* the stored tree is the described one.  Checked over every tree of depth *)
(* <= 2 with <= 2 children per directory and names from a 2-name pool - in *)
(* particular a generator that re-uses a name or leaves it empty (the      *)
(* defect F9) violates SiblingsOK.                                         *)
(***************************************************************************)
EXTENDS FixtureOps, TLC
CONSTANTS NamePool, AllowDup
VARIABLES tree
File(n, p) == [name |-> n, path |-> p, kind |-> "file", root |-> "f", hash |-> "h", kids |-> <<>>]
DirN(n, p, ks) == [name |-> n, path |-> p, kind |-> "dir", root |-> "d", hash |-> "", kids |-> ks]
Leafs(p) == {File(n, p \o "/" \o n) : n \in NamePool} \cup {DirN(n, p \o "/" \o n, <<>>) : n \in NamePool}
Seqs(S) == {<<>>} \cup {<<a>> : a \in S} \cup {<<a, b>> \in S \X S : AllowDup \/ a.name # b.name}
Level1(p) == Leafs(p) \cup UNION {{DirN(n, p \o "/" \o n, ks) : ks \in Seqs(Leafs(p \o "/" \o n))} : n \in NamePool}
Init == tree \in {DirN("", "", ks) : ks \in Seqs(Level1(""))}
Next == UNCHANGED tree
Spec == Init /\ [][Next]_tree
Inv_C19_Siblings == SiblingsOK(tree)
Inv_C19_Paths == PathsComposed(tree)
Inv_C19_Same == SameEntries(tree, tree)
=============================================================================
