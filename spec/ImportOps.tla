----------------------------- MODULE ImportOps -----------------------------
(***************************************************************************)
(* Filesystem trees and what importing one means (C18).                    *)
(* A tree is [kind, name, kids, size, target] with kind in                 *)
(* {"file","dir","symlink","other"}; kids sorted by name (os.ReadDir).     *)
(***************************************************************************)
EXTENDS Integers, Sequences, FiniteSets
ShardThreshold == 262144

RECURSIVE HasOther(_)
HasOther(t) == t.kind = "other" \/ \E k \in 1 .. Len(t.kids) : HasOther(t.kids[k])

\* the imported DAG denotes the same tree: names, kinds, file contents (eq), symlink text
RECURSIVE SameTree(_, _)
SameTree(in, out) ==
  /\ in.kind = out.kind /\ in.name = out.name
  /\ in.kind = "file" => (out.eq /\ out.size = in.size)
  /\ in.kind = "symlink" => out.target = in.target
  /\ in.kind = "dir" => /\ Len(in.kids) = Len(out.kids)
                        /\ \A k \in 1 .. Len(in.kids) : SameTree(in.kids[k], out.kids[k])

\* every directory is sharded exactly when its size estimate exceeds the threshold
RECURSIVE ShardRule(_)
ShardRule(out) == out.kind = "dir" =>
  /\ out.sharded <=> out.est > ShardThreshold
  /\ \A k \in 1 .. Len(out.kids) : ShardRule(out.kids[k])

\* post-order: the order in which a children-first importer finishes nodes;
\* an "other" node aborts the import at that point
RECURSIVE PostOrderPaths(_, _)
PostOrderPaths(t, p) ==
  LET RECURSIVE Kids(_)
      Kids(k) == IF k > Len(t.kids) THEN <<>> ELSE PostOrderPaths(t.kids[k], Append(p, k)) \o Kids(k + 1)
  IN  Kids(1) \o <<p>>
=============================================================================
