------------------------------ MODULE TraceHash ----------------------------
(* Trace validation of the two real bit-slicing helpers (called through the *)
(* verif-tagged exports) against the MSB-first slice specification.         *)
EXTENDS Integers, Sequences, FiniteSets, TLC, Json, IOUtils
HB == INSTANCE HashBits WITH Patterns <- {}, MaxWidth <- 0, pat <- <<>>, off <- 0, w <- 0
Trace == ndJsonDeserialize(IOEnv.TRACE)
VARIABLES l
vars == <<l>>
Init == l = 1
IsEv(e) == l <= Len(Trace) /\ Trace[l].ev = e /\ l' = l + 1
Next == IsEv("crash") \/ IsEv("reset") \/ IsEv("hb") \/ (l = Len(Trace) + 1 /\ UNCHANGED l)
TraceSpec == Init /\ [][Next]_vars
Has == l > 1
Ev == Trace[l - 1]
IsH == Has /\ Ev.ev = "hb"
Exp == HB!SpecSlice(Ev.pat, Ev.off, Ev.w)
Cond_C02_Reader == IsH => (Ev.nextErr = Exp.err /\ (~Exp.err => Ev.next = Exp.v))
Cond_C02_Builder == IsH => (Ev.sliceErr = Exp.err /\ (~Exp.err => Ev.slice = Exp.v))
NoCrash == ~(l > 1 /\ Trace[l - 1].ev = "crash")   \* the code under test took the whole harness process down (driver: mark_crash)
Cond_NoPanic == NoCrash /\ (IsH => ~Ev.panic)
Chk(nm, c) == c \/ PrintT(<<"VIOL", nm, l - 1>>)
Inv_NoPanic == Chk("Inv_NoPanic", Cond_NoPanic)
Inv_C02_HashReader == Chk("Inv_C02_HashReader", Cond_C02_Reader)
Inv_C02_HashBuilder == Chk("Inv_C02_HashBuilder", Cond_C02_Builder)
Alias == [l |-> l]
=============================================================================
