----------------------------- MODULE BuilderOps ----------------------------
(***************************************************************************)
(* Beyond the listed properties: the option builder for UnixFS Data        *)
(* (data/builder/builder.go BuildUnixFS and its option functions) as a     *)
(* function from an option sequence to an outcome.                         *)
(*                                                                         *)
(* option = [o |-> name, v |-> value, bad |-> BOOLEAN]                     *)
(*   "type"    v in 0..5 is valid, anything else is refused                *)
(*   "perm"    v = an integer mode: stored as v % 4096 (low twelve bits)   *)
(*   "permstr" v = the number the string denotes (a leading '0' = octal,   *)
(*             otherwise decimal - the harness renders the string); bad =  *)
(*             the string is not a number: refused; stored masked          *)
(*   "mtime"   v = fractional nanoseconds or -1 for none; bad = no seconds *)
(*             given; nanoseconds outside 0..999999999 are refused         *)
(*   "mtimet"  the mtime given as a time value (builder.Time) v nanoseconds *)
(*             after second 5: never refused, the value is normalised      *)
(*   "bs"      v = number of block sizes supplied                          *)
(*   "data", "fsize", "hash", "fanout": stored as given                    *)
(* The option functions panic with an error value and the map assembler    *)
(* refuses a repeated field; BuildUnixFS turns both into a returned error. *)
(* Defaults: type File when no "type" option was given; BlockSizes always  *)
(* present (empty when no "bs" option was given).                          *)
(***************************************************************************)
EXTENDS Integers, Sequences, FiniteSets
FieldOf(o) == IF o.o \in {"perm", "permstr"} THEN "mode" ELSE IF o.o = "mtimet" THEN "mtime" ELSE o.o
Refused(o) == \/ (o.o = "type" /\ o.v \notin 0 .. 5)
              \/ (o.o = "permstr" /\ o.bad)
              \/ (o.o = "mtime" /\ (o.bad \/ o.v < -1 \/ o.v > 999999999))
Outcome(opts) ==
  IF \/ \E k \in 1 .. Len(opts) : Refused(opts[k])
     \/ \E i, j \in 1 .. Len(opts) : i < j /\ FieldOf(opts[i]) = FieldOf(opts[j])
  THEN "error" ELSE "ok"
Has(opts, name) == \E k \in 1 .. Len(opts) : FieldOf(opts[k]) = name
Get(opts, name) == opts[CHOOSE k \in 1 .. Len(opts) : FieldOf(opts[k]) = name]
TypeOf(opts) == IF Has(opts, "type") THEN Get(opts, "type").v ELSE 2
ModeOf(opts) == IF Has(opts, "mode") THEN Get(opts, "mode").v % 4096 ELSE -1
\* stored modification time: <<seconds, nanoseconds>>, -1 for an absent part
MtimeOf(opts) == IF ~Has(opts, "mtime") THEN <<-1, -1>>
                 ELSE LET o == Get(opts, "mtime") IN
                      IF o.o = "mtimet" THEN <<5 + (o.v \div 1000000000), o.v % 1000000000>> ELSE <<5, o.v>>
\* scalar fields are stored as given (-1: absent)
ScalarOf(opts, name) == IF Has(opts, name) THEN Get(opts, name).v ELSE -1
NBlockSizes(opts) == IF Has(opts, "bs") THEN Get(opts, "bs").v ELSE 0
=============================================================================
