SPECIFICATION Spec
CONSTANTS
  Targets = {"match", "preload", "entity", "exploreall"}
  MPs = {FALSE, TRUE}
INVARIANTS Inv_C03_ExpShape
CHECK_DEADLOCK FALSE
