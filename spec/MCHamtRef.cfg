SPECIFICATION Spec
CONSTANTS
  Univ <- MCUniv5
  Dig <- MCDig
  Depth = 4
INVARIANTS Inv_C08_Entries Inv_C08_Canon Inv_C08_Lookup Export
CHECK_DEADLOCK FALSE
