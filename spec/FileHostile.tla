----------------------------- MODULE FileHostile ----------------------------
(***************************************************************************)
(* Model check of FileHostileOps over every table of a small domain: two   *)
(* raw leaves, an inner node over them and a root with up to two links to  *)
(* any of the three, with arbitrary (also negative, absent, wrong) sizes.  *)
(*   - every operator is total;                                            *)
(*   - on a CONSISTENT table (every link stored, every declared size the   *)
(*     true one) reading everything succeeds and yields exactly the        *)
(*     declared length - the file contract (C01) as a special case of the  *)
(*     hostile transcription;                                              *)
(*   - reading never yields more than the bytes that are there.            *)
(***************************************************************************)
EXTENDS FileHostileOps, TLC
CONSTANTS MaxRootLinks
VARIABLES l1, l2, inner, root
vars == <<l1, l2, inner, root>>
Raw(n) == [kind |-> "raw", typ |-> -1, len |-> n, hasFS |-> FALSE, fsize |-> 0, bsizes |-> <<>>, links |-> <<>>]
Sizes == {-1, 0, 1, 3}
LinkTo(T) == [target : T, raw : BOOLEAN, hasT : BOOLEAN, tsize : Sizes]
SeqsUpTo(S, n) == UNION {[1 .. k -> S] : k \in 0 .. n}
Node(ls) == [kind : {"unixfs", "nodata"}, typ : {2}, len : {0}, hasFS : BOOLEAN, fsize : {0, 3}, bsizes : {<<>>, <<1>>, <<1, 2>>, <<0, 3>>}, links : ls]
InnerNode(ls) == [kind : {"unixfs", "nodata"}, typ : {2}, len : {0}, hasFS : BOOLEAN, fsize : {3}, bsizes : {<<>>, <<1, 2>>}, links : ls]
H == <<l1, l2, inner, root>>
Init == /\ l1 \in {Raw(n) : n \in {0, 1}} /\ l2 \in {Raw(n) : n \in {1, 2}}
        /\ inner \in InnerNode({<<[target |-> 1, raw |-> TRUE, hasT |-> TRUE, tsize |-> l1.len], [target |-> 2, raw |-> TRUE, hasT |-> TRUE, tsize |-> l2.len]>>})
        /\ root \in Node(SeqsUpTo(LinkTo({0, 1, 2, 3}), MaxRootLinks))
Next == UNCHANGED vars
Spec == Init /\ [][Next]_vars
Root == 4
TrueLen(i) == IF i = 1 THEN l1.len ELSE IF i = 2 THEN l2.len ELSE l1.len + l2.len
\* a link is consistent when its target is stored, the codec flag is the target's, and the size the reader will use is the true one
LinkConsistent(k) == LET lk == root.links[k] IN
    /\ lk.target # 0 /\ lk.raw = (lk.target \in {1, 2})
    /\ IF lk.raw THEN lk.hasT /\ lk.tsize = TrueLen(lk.target)
       ELSE (root.kind = "unixfs" /\ k <= Len(root.bsizes)) => root.bsizes[k] = TrueLen(lk.target)
InnerConsistent == inner.kind = "unixfs" /\ (inner.hasFS => inner.fsize = TrueLen(3)) /\ (Len(inner.bsizes) = 0 \/ inner.bsizes = <<l1.len, l2.len>>)
Consistent == InnerConsistent /\ \A k \in 1 .. Len(root.links) : LinkConsistent(k)
SumTrue == LET RECURSIVE S(_) S(k) == IF k > Len(root.links) THEN 0 ELSE TrueLen(root.links[k].target) + S(k + 1) IN S(1)
R == ReadAll(H, Root)
Inv_X_Total == R.ok \in BOOLEAN /\ R.n >= 0 /\ Length(H, Root) >= -8
Inv_X_ConsistentReads == (Consistent /\ Len(root.links) > 0) => (R.ok /\ R.n = SumTrue)
Inv_X_NoInventedBytes == (R.ok /\ Len(root.links) > 0) => R.n <= 2 * (l1.len + l2.len)
=============================================================================
