--------------------------- MODULE FileHostileOps ---------------------------
(***************************************************************************)
(* Beyond the listed properties: what the file reader makes of an          *)
(* ARBITRARY (malformed, hostile) file DAG - a transcription of            *)
(* file/file.go, file/shard.go (makeReader, linkSize, length), file/       *)
(* deferred.go and file/wrapped.go at the repaired tree, far enough to     *)
(* predict whether reading the whole file succeeds and how many bytes it   *)
(* yields.  Noteworthy consequences of the code, all reproduced here:      *)
(*   - a child is any block: a directory, a symlink or a shard linked      *)
(*     from a file node is read as what its links / inline bytes give;     *)
(*   - declared sizes (Tsize of raw children, BlockSizes of the others,    *)
(*     else the child's own length) only decide which leading children a   *)
(*     read from offset 0 skips: those that end at or before offset 0;     *)
(*   - the bytes delivered are the children's actual bytes.                *)
(*                                                                         *)
(* H[i]: [kind ("raw" | "nodata" | "baddata" | "unixfs"), len (raw: block  *)
(* length; else inline Data length), hasFS, fsize, bsizes, links], a link  *)
(* is [target (0: not stored), raw (the CID's codec is raw), hasT, tsize]. *)
(* Cases whose numbers do not fit TLC's 32-bit integers are not modelled.  *)
(***************************************************************************)
EXTENDS Integers, Sequences, FiniteSets

Err == [ok |-> FALSE, n |-> 0]
Val(n) == [ok |-> TRUE, n |-> n]

\* NewUnixFSFile on a loaded block: a raw block and a node with links always open; a node without links must
\* carry decodable UnixFS data (newWrappedNode)
OpenOK(b) == b.kind = "raw" \/ Len(b.links) > 0 \/ b.kind = "unixfs"

RECURSIVE Length(_, _), LinkSize(_, _, _), SumSizes(_, _, _)
\* length(): the declared FileSize when the node's data decodes and has one, else what the links add up to (0 on error)
Length(H, i) ==
  LET b == H[i] IN
  IF b.kind = "raw" \/ Len(b.links) = 0 THEN b.len
  ELSE IF b.kind = "unixfs" /\ b.hasFS THEN b.fsize
  ELSE LET s == SumSizes(H, i, 1) IN IF s.ok THEN s.n ELSE 0
SumSizes(H, i, k) ==
  IF k > Len(H[i].links) THEN Val(0)
  ELSE LET a == LinkSize(H, i, k) IN
       IF ~a.ok THEN Err
       ELSE LET r == SumSizes(H, i, k + 1) IN IF r.ok THEN Val(a.n + r.n) ELSE Err
\* linkSize(): Tsize for a raw child (an absent Tsize is an error); the BlockSizes entry when the parent's data
\* decodes and has one; else the child is opened and asked for its length
LinkSize(H, i, k) ==
  LET b == H[i]
      lk == b.links[k] IN
  IF lk.raw THEN (IF lk.hasT THEN Val(lk.tsize) ELSE Err)
  ELSE IF b.kind = "unixfs" /\ k <= Len(b.bsizes) THEN Val(b.bsizes[k])
  ELSE IF lk.target = 0 \/ ~OpenOK(H[lk.target]) THEN Err
  ELSE Val(Length(H, lk.target))

\* reading everything from offset 0
RECURSIVE ReadAll(_, _), ReadLinks(_, _, _, _)
ReadAll(H, i) ==
  LET b == H[i] IN
  IF b.kind = "raw" THEN Val(b.len)
  ELSE IF Len(b.links) = 0 THEN (IF b.kind = "unixfs" THEN Val(b.len) ELSE Err)
  ELSE ReadLinks(H, i, 1, 0)
ReadLinks(H, i, k, at) ==
  IF k > Len(H[i].links) THEN Val(0)
  ELSE LET lk == H[i].links[k]
           sz == LinkSize(H, i, k) IN
       IF ~sz.ok THEN Err
       ELSE IF at + sz.n <= 0 THEN ReadLinks(H, i, k + 1, at + sz.n)            \* ends at or before offset 0: skipped
       ELSE IF lk.target = 0 \/ ~OpenOK(H[lk.target]) THEN Err
       ELSE LET c == ReadAll(H, lk.target) IN
            IF ~c.ok THEN Err
            ELSE LET r == ReadLinks(H, i, k + 1, at + sz.n) IN IF r.ok THEN Val(c.n + r.n) ELSE Err
=============================================================================
