------------------------------- MODULE Builder -----------------------------
(* Enumeration of option sequences (length <= MaxLen) for BuildUnixFS; each *)
(* is exported and replayed on the real builder.                            *)
EXTENDS BuilderOps, TLC, Json
CONSTANT MaxLen
VARIABLE opts
O(o, v, bad) == [o |-> o, v |-> v, bad |-> bad]
Alphabet == {O("type", 0, FALSE), O("type", 1, FALSE), O("type", 5, FALSE), O("type", 6, FALSE), O("type", 1000000, FALSE),
             O("perm", 420, FALSE), O("perm", 33188, FALSE), O("perm", 0, FALSE),
             O("permstr", 493, FALSE), O("permstr", 4095, FALSE), O("permstr", 755, FALSE), O("permstr", 0, TRUE),
             O("mtime", -1, FALSE), O("mtime", 0, FALSE), O("mtime", 999999999, FALSE), O("mtime", 1000000000, FALSE), O("mtime", 5, TRUE),
             O("mtimet", 0, FALSE), O("mtimet", 1500000000, FALSE),
             O("bs", 0, FALSE), O("bs", 2, FALSE), O("data", 1, FALSE), O("fsize", 7, FALSE), O("hash", 34, FALSE), O("fanout", 256, FALSE)}
RECURSIVE SeqsUpTo(_)
SeqsUpTo(k) == IF k = 0 THEN {<<>>} ELSE LET S == SeqsUpTo(k - 1) IN S \cup {Append(s, a) : s \in {t \in S : Len(t) = k - 1}, a \in Alphabet}
Init == opts \in SeqsUpTo(MaxLen)
Next == UNCHANGED opts
Spec == Init /\ [][Next]_opts
\* sanity of the model: an accepted sequence sets every field at most once and has a valid type
Inv_X_BuilderSane == Outcome(opts) = "ok" => (TypeOf(opts) \in 0 .. 5 /\ ModeOf(opts) \in -1 .. 4095)
Export == PrintT(<<"CASE", ToJson(opts)>>)
=============================================================================
