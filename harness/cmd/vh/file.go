package main

import (
	"bytes"
	"context"
	"fmt"
	"github.com/gogo/protobuf/proto"
	pb "github.com/ipfs/boxo/ipld/unixfs/pb"
	format "github.com/ipfs/go-ipld-format"
	"github.com/ipld/go-ipld-prime/node/basicnode"
	"github.com/ipld/go-ipld-prime/traversal"
	selbuilder "github.com/ipld/go-ipld-prime/traversal/selector/builder"
	"github.com/multiformats/go-multihash"
	"io"
	"math/rand"
	"strings"

	chunk "github.com/ipfs/boxo/chunker"
	"github.com/ipfs/boxo/ipld/merkledag"
	"github.com/ipfs/boxo/ipld/unixfs/importer/balanced"
	"github.com/ipfs/boxo/ipld/unixfs/importer/helpers"
	"github.com/ipfs/boxo/ipld/unixfs/importer/trickle"
	"github.com/ipfs/go-cid"
	unixfsnode "github.com/ipfs/go-unixfsnode"
	"github.com/ipfs/go-unixfsnode/data/builder"
	"github.com/ipfs/go-unixfsnode/file"
	"github.com/ipld/go-ipld-prime"
	"github.com/ipld/go-ipld-prime/datamodel"
	cidlink "github.com/ipld/go-ipld-prime/linking/cid"
)

// FileCase is one self-contained, re-executable scenario of the file family.
type FileCase struct {
	Fam      string  `json:"fam"`
	ID       string  `json:"id"`
	Len      int     `json:"len"`      // content length
	Chunker  string  `json:"chunker"`  // e.g. size-3
	W        int     `json:"w"`        // link width
	Content  string  `json:"content"`  // "distinct" | "random" | "repeat"
	Seed     int64   `json:"seed"`     // for random content
	Writer   string  `json:"writer"`   // own | boxo-<layout>-<raw|pb>-v<0|1>
	Open     string  `json:"open"`     // direct | reify | preload
	Missing  []int   `json:"missing"`  // block classes made unavailable
	FailAt   int     `json:"failat"`   // k-th load after opening fails
	NotFound bool    `json:"notfound"` // injected error kind
	Timeout  bool    `json:"timeout"`  // injected errors report themselves as timeouts
	ErrKind  string  `json:"errkind"`  // injected error kind that wins over both: eofwrap (an I/O error wrapping io.EOF) | unexpectedeof
	Mode     string  `json:"mode"`     // free tag: hist | seq | range | fault ...
	Script   [][]any `json:"script"`
	NilCtx   bool    `json:"nilctx"` // the node is opened with a zero LinkContext / nil context (as the repository's own tests do)
}

func makeContent(kind string, n int, seed int64) []byte {
	b := make([]byte, n)
	if strings.HasPrefix(kind, "pattern:") {
		// two-byte chunks, chunk i holds one of two values by bit i of the pattern
		var pat int
		fmt.Sscanf(kind, "pattern:%d", &pat)
		for i := range b {
			if pat&(1<<uint((i/2)%30)) != 0 {
				b[i] = 'A'
			} else {
				b[i] = 'B'
			}
		}
		return b
	}
	if strings.HasPrefix(kind, "holes:") {
		// a sparse-looking file: runs of k bytes alternate between data and zeros (header, hole, payload, zero padding);
		// with n not a multiple of k the last run is a short all-zero one
		var k int
		fmt.Sscanf(kind, "holes:%d", &k)
		r := rand.New(rand.NewSource(seed))
		for i := 0; i < n; i += k {
			if (i/k)%2 == 0 {
				r.Read(b[i:min(i+k, n)])
			}
		}
		return b
	}
	switch kind {
	case "distinct":
		for i := range b {
			b[i] = byte(11 + i%245)
		}
	case "repeat":
		// few distinct chunks repeated: de-duplicated storage is smaller than the tree
		for i := range b {
			b[i] = byte(1 + (i/7)%2)
		}
	default:
		r := rand.New(rand.NewSource(seed))
		r.Read(b)
	}
	return b
}

func buildOwnFile(st *Store, content io.Reader, chunker string, w int) (cid.Cid, uint64, error) {
	builder.DefaultLinksPerBlock = w
	ls := st.LinkSystem()
	l, sz, err := builder.BuildUnixFSFile(content, chunker, ls)
	if l == nil {
		return cid.Undef, sz, err
	}
	return l.(cidlink.Link).Cid, sz, err
}

func buildBoxoFile(st *Store, content []byte, chunker string, w int, layout string, raw bool, cidv int) (cid.Cid, uint64, error) {
	spl, err := chunk.FromString(bytes.NewReader(content), chunker)
	if err != nil {
		return cid.Undef, 0, err
	}
	prefix, err := merkledag.PrefixForCidVersion(cidv)
	if err != nil {
		return cid.Undef, 0, err
	}
	params := helpers.DagBuilderParams{Maxlinks: w, RawLeaves: raw, CidBuilder: &prefix, Dagserv: dagServ{st}}
	db, err := params.New(spl)
	if err != nil {
		return cid.Undef, 0, err
	}
	var nd interface {
		Cid() cid.Cid
		Size() (uint64, error)
	}
	if layout == "trickle" {
		n, err := trickle.Layout(db)
		if err != nil {
			return cid.Undef, 0, err
		}
		nd = n
	} else {
		n, err := balanced.Layout(db)
		if err != nil {
			return cid.Undef, 0, err
		}
		nd = n
	}
	sz, err := nd.Size()
	return nd.Cid(), sz, err
}

func parseWriter(wr string) (layout string, raw bool, cidv int) {
	var lf string
	fmt.Sscanf(wr, "boxo-%s", &lf)
	// boxo-balanced-raw-v1
	parts := bytes.Split([]byte(wr), []byte("-"))
	layout = string(parts[1])
	raw = string(parts[2]) == "raw"
	cidv = 1
	if string(parts[3]) == "v0" {
		cidv = 0
	}
	return
}

// stripBlockSizes rewrites a file DAG bottom-up without the BlockSizes of its interior nodes (a legal but
// non-standard writer): the reader then has to learn child sizes from Tsize (raw leaves) or by opening children.
func stripBlockSizes(st *Store, c cid.Cid) (cid.Cid, error) {
	if c.Prefix().Codec != cid.DagProtobuf {
		return c, nil
	}
	b, _ := st.Get(c)
	pn, d, err := decodePB(c, b)
	if err != nil || d == nil {
		return c, err
	}
	if len(pn.Links()) == 0 {
		return c, nil
	}
	d.Blocksizes = nil
	db, err := proto.Marshal(d)
	if err != nil {
		return c, err
	}
	nd := merkledag.NodeWithData(db)
	nd.SetCidBuilder(cid.V1Builder{Codec: cid.DagProtobuf, MhType: multihash.SHA2_256})
	for _, l := range pn.Links() {
		nc, err := stripBlockSizes(st, l.Cid)
		if err != nil {
			return c, err
		}
		if err := nd.AddRawLink(l.Name, &format.Link{Name: l.Name, Size: l.Size, Cid: nc}); err != nil {
			return c, err
		}
	}
	st.Put(nd.Cid(), nd.RawData())
	return nd.Cid(), nil
}

// rewriteOwn post-processes a DAG written by this library's builder into another *valid* UnixFS file DAG:
//
//	"mixed": the first child of every link node, when it is a raw leaf, becomes a protobuf-wrapped leaf
//	         (so raw leaves follow a dag-pb sibling, as in DAGs with mixed leaf kinds);
//	"mtime": the root carries a UnixFS 1.5 mtime before 1970 (negative seconds).
//
// Link sizes are recomputed the way the reference implementation does (merkledag AddNodeLink).
func rewriteOwn(st *Store, c cid.Cid, mode string, isRoot bool) (format.Node, error) {
	ds := dagServ{st}
	if c.Prefix().Codec != cid.DagProtobuf {
		return ds.Get(context.Background(), c)
	}
	b, _ := st.Get(c)
	pn, d, err := decodePB(c, b)
	if err != nil || d == nil {
		return nil, fmt.Errorf("rewrite: undecodable block")
	}
	if mode == "inline" && isRoot && len(pn.Links()) > 0 {
		// a link node that also carries inline bytes (legal protobuf; this library reads the children only)
		d.Data = []byte("XY")
	}
	if mode == "shortfs" && isRoot && len(d.Blocksizes) > 1 {
		// a stale FileSize that covers the first child only; Links and BlockSizes still describe every child
		fs := d.Blocksizes[0]
		d.Filesize = &fs
	}
	if mode == "rawroot" && isRoot && len(pn.Links()) > 0 {
		t := pb.Data_Raw // UnixFS type Raw (0) is a file type too; importers use it for leaves, nothing forbids it on a node with links
		d.Type = &t
	}
	if mode == "nofs" && len(pn.Links()) > 0 {
		d.Filesize = nil // FileSize is optional: the length is then what the links add up to
	}
	if mode == "mtime" && isRoot {
		sec := int64(-86400)
		d.Mtime = &pb.IPFSTimestamp{Seconds: &sec}
		md := uint32(0o600)
		d.Mode = &md // ... and a mode (UnixFS 1.5 metadata on the root)
	}
	db, err := proto.Marshal(d)
	if err != nil {
		return nil, err
	}
	nd := merkledag.NodeWithData(db)
	nd.SetCidBuilder(cid.V1Builder{Codec: cid.DagProtobuf, MhType: multihash.SHA2_256})
	// "zmid" / "zend" / "zpb" / "zlead": the root gets one more child that holds no bytes (an empty raw leaf after the first
	// child / at the end; an empty dag-pb file node after the first child), with a BlockSizes entry of 0
	zeroAt := -1
	if isRoot && len(pn.Links()) > 0 && (mode == "zmid" || mode == "zend" || mode == "zpb" || mode == "zlead") {
		zeroAt = 1
		if mode == "zend" {
			zeroAt = len(pn.Links())
		}
		if mode == "zlead" {
			zeroAt = 0 // the file *begins* with a child that holds no bytes
		}
		bs := append([]uint64{}, d.Blocksizes[:min(zeroAt, len(d.Blocksizes))]...)
		bs = append(bs, 0)
		bs = append(bs, d.Blocksizes[min(zeroAt, len(d.Blocksizes)):]...)
		d.Blocksizes = bs
		db, err = proto.Marshal(d)
		if err != nil {
			return nil, err
		}
		nd = merkledag.NodeWithData(db)
		nd.SetCidBuilder(cid.V1Builder{Codec: cid.DagProtobuf, MhType: multihash.SHA2_256})
	}
	addZero := func() error {
		var z format.Node
		if mode == "zpb" {
			t := pb.Data_File
			fs := uint64(0)
			zd, err := proto.Marshal(&pb.Data{Type: &t, Filesize: &fs})
			if err != nil {
				return err
			}
			zn := merkledag.NodeWithData(zd)
			zn.SetCidBuilder(cid.V1Builder{Codec: cid.DagProtobuf, MhType: multihash.SHA2_256})
			z = zn
		} else {
			zn, err := merkledag.NewRawNodeWPrefix([]byte{}, cid.Prefix{Version: 1, Codec: cid.Raw, MhType: multihash.SHA2_256, MhLength: 32})
			if err != nil {
				return err
			}
			z = zn
		}
		st.Put(z.Cid(), z.RawData())
		return nd.AddNodeLink("", z)
	}
	for i, l := range pn.Links() {
		if i == zeroAt {
			if err := addZero(); err != nil {
				return nil, err
			}
		}
		var child format.Node
		if mode == "mixed" && i == 0 && l.Cid.Prefix().Codec == cid.Raw {
			raw, _ := st.Get(l.Cid)
			t := pb.Data_File
			fs := uint64(len(raw))
			ld, err := proto.Marshal(&pb.Data{Type: &t, Data: raw, Filesize: &fs})
			if err != nil {
				return nil, err
			}
			leaf := merkledag.NodeWithData(ld)
			leaf.SetCidBuilder(cid.V1Builder{Codec: cid.DagProtobuf, MhType: multihash.SHA2_256})
			st.Put(leaf.Cid(), leaf.RawData())
			child = leaf
		} else {
			child, err = rewriteOwn(st, l.Cid, mode, false)
			if err != nil {
				return nil, err
			}
		}
		if err := nd.AddNodeLink(l.Name, child); err != nil {
			return nil, err
		}
	}
	if zeroAt == len(pn.Links()) {
		if err := addZero(); err != nil {
			return nil, err
		}
	}
	st.Put(nd.Cid(), nd.RawData())
	return nd, nil
}

// wrapOne puts one more level on top of a file: a file node whose only link is the given root (a raw leaf or a link node).
func wrapOne(st *Store, nd format.Node, total uint64) (format.Node, error) {
	t := pb.Data_File
	wd, err := proto.Marshal(&pb.Data{Type: &t, Filesize: &total, Blocksizes: []uint64{total}})
	if err != nil {
		return nil, err
	}
	wn := merkledag.NodeWithData(wd)
	wn.SetCidBuilder(cid.V1Builder{Codec: cid.DagProtobuf, MhType: multihash.SHA2_256})
	if err := wn.AddNodeLink("", nd); err != nil {
		return nil, err
	}
	st.Put(wn.Cid(), wn.RawData())
	return wn, nil
}

func buildFileCase(st *Store, fc *FileCase, content []byte) (cid.Cid, uint64, error) {
	if fc.Writer == "own-mixed" || fc.Writer == "own-mtime" || fc.Writer == "own-inline" || fc.Writer == "own-nofs" ||
		fc.Writer == "own-zmid" || fc.Writer == "own-zend" || fc.Writer == "own-zpb" || fc.Writer == "own-zlead" || fc.Writer == "own-wrap1" || fc.Writer == "own-shortfs" || fc.Writer == "own-rawroot" {
		c, sz, err := buildOwnFile(st, bytes.NewReader(content), fc.Chunker, fc.W)
		if err != nil {
			return c, sz, err
		}
		nd, err := rewriteOwn(st, c, fc.Writer[4:], true)
		if err != nil {
			return c, sz, err
		}
		if fc.Writer == "own-wrap1" {
			if nd, err = wrapOne(st, nd, uint64(len(content))); err != nil {
				return c, sz, err
			}
		}
		nsz, _ := nd.Size()
		return nd.Cid(), nsz, nil
	}
	if fc.Writer == "" || fc.Writer == "own" {
		return buildOwnFile(st, bytes.NewReader(content), fc.Chunker, fc.W)
	}
	if fc.Writer == "own-nobs" {
		c, sz, err := buildOwnFile(st, bytes.NewReader(content), fc.Chunker, fc.W)
		if err != nil {
			return c, sz, err
		}
		nc, err := stripBlockSizes(st, c)
		return nc, sz, err
	}
	layout, raw, cidv := parseWriter(fc.Writer)
	return buildBoxoFile(st, content, fc.Chunker, fc.W, layout, raw, cidv)
}

func lbnOf(n ipld.Node) (io.ReadSeeker, error) {
	if lb, ok := n.(datamodel.LargeBytesNode); ok {
		return lb.AsLargeBytes()
	}
	b, err := n.AsBytes()
	if err != nil {
		return nil, err
	}
	return bytes.NewReader(b), nil
}

func openFileNode(ls *ipld.LinkSystem, root ipld.Node, mode string, nilCtx ...bool) (ipld.Node, error) {
	lctx := ipld.LinkContext{Ctx: context.Background()}
	var ctx context.Context = context.Background()
	if len(nilCtx) > 0 && nilCtx[0] {
		lctx, ctx = ipld.LinkContext{}, nil
	}
	switch mode {
	case "direct":
		return file.NewUnixFSFile(ctx, root, ls)
	case "reify":
		return unixfsnode.Reify(lctx, root, ls)
	case "preload":
		return ls.KnownReifiers["unixfs-preload"](lctx, root, ls)
	}
	return nil, fmt.Errorf("unknown open mode %q", mode)
}

const bytesModeMax = 96

func num(x any) int {
	switch v := x.(type) {
	case float64:
		return int(v)
	case int:
		return v
	case int64:
		return int(v)
	}
	panic(fmt.Sprintf("not a number: %T %v", x, x))
}

// runFileCase executes one case on the real library and appends its trace.
func runFileCase(fc *FileCase, tr *Tr) error {
	st := NewStore()
	content := makeContent(fc.Content, fc.Len, fc.Seed)
	own := fc.Writer == "" || strings.HasPrefix(fc.Writer, "own")
	root, size, err := buildFileCase(st, fc, content)
	if err != nil {
		if own {
			// this library's builder refused a valid input, or what it stored cannot be post-processed: recorded
			tr.Emit(M{"ev": "reset", "case": caseString(fc)})
			tr.Emit(M{"ev": "unwalkable", "err": "build: " + err.Error(), "e": "nil"})
			return nil
		}
		return fmt.Errorf("build: %w", err)
	}
	fw, err := walkFile(st, root)
	if err != nil {
		if own {
			// the builder returned a link, but the DAG cannot be read back from the store it was built into
			// (a block is absent or undecodable): recorded, not a harness failure
			tr.Emit(M{"ev": "reset", "case": caseString(fc)})
			tr.Emit(M{"ev": "unwalkable", "err": err.Error(), "e": "nil"})
			return nil
		}
		return err
	}
	tr.Emit(M{"ev": "reset", "case": caseString(fc)})
	bytesMode := len(content) <= bytesModeMax
	dag := M{"ev": "dag", "B": fw.Blocks, "L": len(content), "size": size,
		"dagEq": bytes.Equal(fw.Content, content), "missing": fc.Missing, "mode": fc.Mode}
	if bytesMode {
		dag["cmode"] = "bytes"
		dag["content"] = ints(content)
	} else {
		dag["cmode"] = "eq"
		dag["content"] = []int{}
	}
	if fc.Missing == nil {
		dag["missing"] = []int{}
	}
	tr.Emit(dag)

	ls := st.LinkSystem()
	unixfsnode.AddUnixFSReificationToLinkSystem(ls)
	rootNode, err := loadNode(ls, root)
	if err != nil {
		return err
	}
	// faults and logging start once the root block is in hand
	for _, m := range fc.Missing {
		if m <= 0 || m >= len(fw.cids) {
			return fmt.Errorf("bad missing class %d", m)
		}
		st.missing[key(fw.cids[m])] = true
	}
	st.notFound = fc.NotFound
	st.timeout = fc.Timeout
	st.errKind = fc.ErrKind
	st.logLoads = true
	st.loadCount = 0
	st.failLoadAt = fc.FailAt

	var node ipld.Node
	openNode := func() error {
		var n ipld.Node
		var err error
		if pm := guard(func() { n, err = openFileNode(ls, rootNode, fc.Open, fc.NilCtx) }); pm != nil {
			n, err = nil, pm
		}
		loads, failed := st.TakeLoads()
		tr.Emit(M{"ev": "opennode", "how": fc.Open, "e": errClass(err),
			"loads": classes(fw, loads), "failed": classes(fw, failed)})
		if err == nil {
			node = n
		}
		return nil
	}
	if err := openNode(); err != nil {
		return err
	}
	readers := map[int]io.ReadSeeker{}
	dataOf := func(pos int64, p []byte) (any, bool) {
		eq := len(p) == 0 || (pos >= 0 && pos+int64(len(p)) <= int64(len(content)) && bytes.Equal(p, content[pos:pos+int64(len(p))]))
		if bytesMode {
			return ints(p), eq
		}
		return []int{}, eq
	}
	// position tracking for eq-mode comparison only (the spec tracks its own)
	posOf := map[int]int64{}

	doRead := func(r, k int) (int, error, error) {
		rd, ok := readers[r]
		if !ok {
			return 0, nil, fmt.Errorf("reader %d not open", r)
		}
		buf := make([]byte, k)
		var n int
		var err error
		if pm := guard(func() { n, err = rd.Read(buf) }); pm != nil {
			n, err = 0, pm
		}
		loads, failed := st.TakeLoads()
		d, eq := dataOf(posOf[r], buf[:n])
		tr.Emit(M{"ev": "read", "r": r, "k": k, "n": n, "e": errClass(err), "data": d, "eq": eq,
			"loads": classes(fw, loads), "failed": classes(fw, failed)})
		posOf[r] += int64(n)
		return n, err, nil
	}

	for _, op := range fc.Script {
		if node == nil {
			break
		}
		name := op[0].(string)
		switch name {
		case "open":
			r := num(op[1])
			var rd io.ReadSeeker
			var err error
			if pm := guard(func() { rd, err = lbnOf(node) }); pm != nil {
				rd, err = nil, pm
			}
			loads, failed := st.TakeLoads()
			tr.Emit(M{"ev": "open", "r": r, "e": errClass(err), "loads": classes(fw, loads), "failed": classes(fw, failed)})
			if err == nil {
				readers[r] = rd
				posOf[r] = 0
			}
		case "seek":
			r, off, wh := num(op[1]), int64(num(op[2])), num(op[3])
			rd, ok := readers[r]
			if !ok {
				continue // its open failed (recorded above, and a violation wherever a reader must open): nothing to seek in
			}
			var ret int64
			var err error
			if pm := guard(func() { ret, err = rd.Seek(off, wh) }); pm != nil {
				ret, err = 0, pm
			}
			loads, failed := st.TakeLoads()
			tr.Emit(M{"ev": "seek", "r": r, "off": off, "wh": wh, "ret": ret, "e": errClass(err),
				"loads": classes(fw, loads), "failed": classes(fw, failed)})
			if err == nil {
				posOf[r] = ret
			} else {
				// after a failed seek the reader must stay usable: probe the
				// position it reports
				var ret2 int64
				var err2 error
				if pm := guard(func() { ret2, err2 = rd.Seek(0, io.SeekCurrent) }); pm != nil {
					ret2, err2 = 0, pm
				}
				loads, failed := st.TakeLoads()
				tr.Emit(M{"ev": "seek", "r": r, "off": 0, "wh": 1, "ret": ret2, "e": errClass(err2),
					"loads": classes(fw, loads), "failed": classes(fw, failed)})
				if err2 == nil {
					posOf[r] = ret2
				}
			}
		case "read":
			// (a reader whose open failed - recorded above - has nothing to read from: its operations are skipped)
			doRead(num(op[1]), num(op[2]))
		case "readfull":
			r, k := num(op[1]), num(op[2])
			for k > 0 {
				n, err, herr := doRead(r, k)
				if herr != nil {
					break
				}
				k -= n
				if err != nil || n == 0 {
					break
				}
			}
		case "readall":
			r, bs := num(op[1]), num(op[2])
			budget := 4*(len(content)+len(fw.Blocks)) + 16
			for i := 0; ; i++ {
				if i > budget {
					tr.Emit(M{"ev": "budget", "what": "readall"})
					break
				}
				_, err, herr := doRead(r, bs)
				if herr != nil || err != nil {
					break
				}
			}
		case "asbytes":
			var b []byte
			var err error
			if pm := guard(func() { b, err = node.AsBytes() }); pm != nil {
				b, err = nil, pm
			}
			loads, failed := st.TakeLoads()
			d, eq := dataOf(0, b)
			if !bytesMode {
				eq = eq && (err != nil || len(b) == len(content))
			}
			tr.Emit(M{"ev": "whole", "how": "asbytes", "n": len(b), "e": errClass(err), "data": d, "eq": eq,
				"loads": classes(fw, loads), "failed": classes(fw, failed)})
		case "subset":
			// the byte range [a,b) through a subset-matcher traversal over the reified node
			a, bb := int64(num(op[1])), int64(num(op[2]))
			ssb := selbuilder.NewSelectorSpecBuilder(basicnode.Prototype.Any)
			sel, serr := ssb.MatcherSubset(a, bb).Selector()
			if serr != nil {
				return serr
			}
			var got []byte
			var werr error
			matches := 0
			if pm := guard(func() {
				prog := traversal.Progress{Cfg: &traversal.Config{Ctx: context.Background(), LinkSystem: *ls}}
				werr = prog.WalkMatching(node, sel, func(_ traversal.Progress, n datamodel.Node) error {
					matches++
					b, err := n.AsBytes()
					got = append(got, b...)
					return err
				})
			}); pm != nil {
				werr = pm
			}
			loads, failed := st.TakeLoads()
			d, eq := dataOf(a, got)
			tr.Emit(M{"ev": "subset", "a": a, "b": bb, "n": len(got), "matches": matches, "e": errClass(werr), "data": d, "eq": eq,
				"loads": classes(fw, loads), "failed": classes(fw, failed)})
		case "heal":
			// every block becomes available again (retrieval resumes): readers must carry on correctly
			st.ClearFaults()
			tr.Emit(M{"ev": "heal"})
		case "reopen":
			// construct a fresh node from the root block (cold state)
			if err := openNode(); err != nil {
				return err
			}
		default:
			return fmt.Errorf("unknown op %q", name)
		}
	}
	return nil
}
