package main

import (
	"bytes"
	"encoding/json"
	"flag"
	"fmt"
	"math/rand"
	"os"
	"path/filepath"
	"sort"
	"strings"
	"sync"
	"syscall"
	"time"

	pb "github.com/ipfs/boxo/ipld/unixfs/pb"
	"github.com/ipfs/go-cid"
	"github.com/ipfs/go-unixfsnode/data/builder"
	"github.com/ipld/go-ipld-prime"
	cidlink "github.com/ipld/go-ipld-prime/linking/cid"
)

// ImportCase: one on-disk tree handed to BuildUnixFSRecursive.
type ImportCase struct {
	Fam  string    `json:"fam"`
	ID   string    `json:"id"`
	Tree *TreeSpec `json:"tree"`
	W    int       `json:"w"`
	// Wide > 0: the root additionally gets this many empty files with names of NameLen bytes
	Wide    int `json:"wide"`
	NameLen int `json:"namelen"`
}

// RTree is a tree as the trace carries it (input and result have the same form).
type RTree struct {
	Kind    string  `json:"kind"` // file | dir | symlink | other
	Name    string  `json:"name"`
	Kids    []RTree `json:"kids"`
	Size    int     `json:"size"`
	Target  string  `json:"target"`
	Eq      bool    `json:"eq"`      // result: file content equals the on-disk bytes
	Sharded bool    `json:"sharded"` // result: directory stored as a HAMT
	Est     int     `json:"est"`     // result: the auto-shard size estimate of this directory's entries
}

func specToRTree(t *TreeSpec) RTree {
	r := RTree{Kind: t.Kind, Name: t.Name, Size: t.Size, Target: t.Target, Kids: []RTree{}, Eq: true}
	if t.Kind == "fifo" {
		r.Kind = "other"
	}
	for _, c := range t.Children {
		r.Kids = append(r.Kids, specToRTree(c))
	}
	sort.Slice(r.Kids, func(i, j int) bool { return r.Kids[i].Name < r.Kids[j].Name })
	return r
}

// walkImported reads the stored DAG independently (boxo merkledag + gogo pb).
func walkImported(st *Store, c cid.Cid, name, diskPath string) (RTree, error) {
	r := RTree{Name: name, Kids: []RTree{}}
	if c.Prefix().Codec == cid.Raw {
		fw, err := walkFile(st, c)
		if err != nil {
			return r, err
		}
		r.Kind, r.Size, r.Eq = "file", len(fw.Content), false
		// only a regular file is read back (reading a fifo would block for ever)
		if fi, err := os.Lstat(diskPath); err == nil && fi.Mode().IsRegular() {
			disk, _ := os.ReadFile(diskPath)
			r.Eq = bytes.Equal(fw.Content, disk)
		}
		return r, nil
	}
	b, ok := st.Get(c)
	if !ok {
		return r, fmt.Errorf("walker: %s absent", c)
	}
	pn, d, err := decodePB(c, b)
	if err != nil || d == nil {
		return r, fmt.Errorf("walker: undecodable block in import result")
	}
	switch d.GetType() {
	case pb.Data_File, pb.Data_Raw:
		fw, err := walkFile(st, c)
		if err != nil {
			return r, err
		}
		r.Kind, r.Size, r.Eq = "file", len(fw.Content), false
		// only a regular file is read back (reading a fifo would block for ever)
		if fi, err := os.Lstat(diskPath); err == nil && fi.Mode().IsRegular() {
			disk, _ := os.ReadFile(diskPath)
			r.Eq = bytes.Equal(fw.Content, disk)
		}
	case pb.Data_Symlink:
		r.Kind, r.Target = "symlink", string(d.Data)
	case pb.Data_Directory:
		r.Kind = "dir"
		for _, l := range pn.Links() {
			k, err := walkImported(st, l.Cid, l.Name, filepath.Join(diskPath, l.Name))
			if err != nil {
				return r, err
			}
			r.Est += len(l.Name) + l.Cid.ByteLen()
			r.Kids = append(r.Kids, k)
		}
	case pb.Data_HAMTShard:
		r.Kind, r.Sharded = "dir", true
		var rec func(c cid.Cid) error
		rec = func(c cid.Cid) error {
			bb, ok := st.Get(c)
			if !ok {
				return fmt.Errorf("walker: shard absent")
			}
			pn, d, err := decodePB(c, bb)
			if err != nil || d == nil {
				return fmt.Errorf("walker: bad shard")
			}
			pad := len(fmt.Sprintf("%X", d.GetFanout()-1))
			for _, l := range pn.Links() {
				if len(l.Name) == pad {
					if err := rec(l.Cid); err != nil {
						return err
					}
					continue
				}
				nm := l.Name[pad:]
				k, err := walkImported(st, l.Cid, nm, filepath.Join(diskPath, nm))
				if err != nil {
					return err
				}
				r.Est += len(nm) + l.Cid.ByteLen()
				r.Kids = append(r.Kids, k)
			}
			return nil
		}
		if err := rec(c); err != nil {
			return r, err
		}
	default:
		r.Kind = "other"
	}
	sort.Slice(r.Kids, func(i, j int) bool { return r.Kids[i].Name < r.Kids[j].Name })
	return r, nil
}

func hasOther(t *TreeSpec) bool {
	if t.Kind == "fifo" {
		return true
	}
	for _, c := range t.Children {
		if hasOther(c) {
			return true
		}
	}
	return false
}

// the importer must not need a descriptor per entry: imports run with a soft limit of 512 open files
// (the widest directories here have 4 096 entries)
var lowFDs sync.Once

func lowerFDLimit() {
	lowFDs.Do(func() {
		var rl syscall.Rlimit
		if syscall.Getrlimit(syscall.RLIMIT_NOFILE, &rl) == nil && (rl.Cur > 512 || rl.Cur == 0) {
			rl.Cur = 512
			syscall.Setrlimit(syscall.RLIMIT_NOFILE, &rl)
		}
	})
}

func runImportCase(ic *ImportCase, tr *Tr) error {
	lowerFDLimit()
	d, err := os.MkdirTemp("", "vh-import-")
	if err != nil {
		return err
	}
	defer os.RemoveAll(d)
	tree := ic.Tree
	if ic.Wide > 0 {
		cp := *tree
		cp.Children = append([]*TreeSpec(nil), tree.Children...)
		for i := 0; i < ic.Wide; i++ {
			n := fmt.Sprintf("w%06d", i)
			n += strings.Repeat("n", ic.NameLen-len(n))
			cp.Children = append(cp.Children, &TreeSpec{Name: n, Kind: "file", Size: 0})
		}
		tree = &cp
	}
	if err := tree.materialize(d); err != nil {
		return err
	}
	st := NewStore()
	if ic.W > 0 {
		builder.DefaultLinksPerBlock = ic.W
	}
	ls := st.LinkSystem()
	var lnk ipld.Link
	var berr error
	var l0 ipld.Link
	var e0 error
	if pm := guardTimed(time.Minute, func() { l0, _, e0 = builder.BuildUnixFSRecursive(filepath.Join(d, tree.Name), ls) }); pm != nil {
		berr = pm // a panic, or the importer never returned (its goroutine may still be running: only pm is looked at)
	} else {
		lnk, berr = l0, e0
	}
	tr.Emit(M{"ev": "reset", "case": caseString(ic)})
	in := specToRTree(tree)
	ev := M{"ev": "import", "in": in, "e": errClass(berr), "hasOther": hasOther(tree), "link": lnk != nil && berr == nil,
		"out": RTree{Kind: "none", Kids: []RTree{}}, "walkOK": true, "nkids": len(in.Kids)}
	if berr == nil && lnk != nil {
		out, err := walkImported(st, lnk.(cidlink.Link).Cid, tree.Name, filepath.Join(d, tree.Name))
		if err != nil {
			ev["walkOK"] = false
			ev["walkErr"] = err.Error()
		} else {
			ev["out"] = out
		}
	}
	if ic.Wide > 200 {
		// very wide roots: compare in Go, keep the trace line small
		out, _ := ev["out"].(RTree)
		same := len(out.Kids) == len(in.Kids)
		for i := 0; same && i < len(in.Kids); i++ {
			a, b := in.Kids[i], out.Kids[i]
			same = a.Name == b.Name && a.Kind == b.Kind && b.Eq
		}
		ev["big"] = true
		ev["bigSame"] = same
		ev["sharded"] = out.Sharded
		ev["est"] = out.Est
		ev["in"] = RTree{Kind: "dir", Name: tree.Name, Kids: []RTree{}}
		ev["out"] = RTree{Kind: "dir", Name: tree.Name, Kids: []RTree{}, Sharded: out.Sharded, Est: out.Est}
	} else {
		ev["big"] = false
	}
	tr.Emit(ev)
	return nil
}

func init() {
	caseRunners["import"] = func(b []byte, tr *Tr) error {
		var ic ImportCase
		if err := json.Unmarshal(b, &ic); err != nil {
			return err
		}
		return runImportCase(&ic, tr)
	}
	cmds["import-gen"] = func(args []string) error {
		fs := flag.NewFlagSet("import-gen", flag.ExitOnError)
		what := fs.String("what", "enum", "enum|random|wide")
		seed := fs.Int64("seed", 1, "seed")
		count := fs.Int("count", 40, "random cases")
		out := fs.String("out", "", "trace output")
		fs.Parse(args)
		tr, err := NewTr(*out)
		if err != nil {
			return err
		}
		defer tr.Close()
		r := rand.New(rand.NewSource(*seed))
		leaf := func(k int, name string) *TreeSpec {
			switch k {
			case 0:
				return &TreeSpec{Name: name, Kind: "file", Size: 0}
			case 1:
				return &TreeSpec{Name: name, Kind: "file", Size: 700, Seed: 7}
			case 2:
				return &TreeSpec{Name: name, Kind: "file", Size: 20, Seed: 9} // multi-chunk at width 2 with the default chunker? no: see W
			case 3:
				return &TreeSpec{Name: name, Kind: "symlink", Target: "rel/target"}
			case 4:
				return &TreeSpec{Name: name, Kind: "symlink", Target: "./sub/../x//y/."} // not in clean form: must be kept verbatim
			case 5:
				return &TreeSpec{Name: name, Kind: "fifo"}
			case 6:
				return &TreeSpec{Name: name, Kind: "dir"}
			}
			return &TreeSpec{Name: name, Kind: "file", Size: 600000, Seed: 11} // several default-size chunks
		}
		switch *what {
		case "enum":
			// every tree of depth <= 2 whose directories have <= 2 children out of 8 leaf kinds
			// (depth-2 children are drawn from the leaf kinds and from depth-1 directories with one child)
			names := []string{"a", "a ü.b"} // the second name extends the first: "a" may be a directory next to "a ü.b"
			var level1 []*TreeSpec
			for k := 0; k < 8; k++ {
				level1 = append(level1, leaf(k, ""))
			}
			for k := 0; k < 8; k++ {
				level1 = append(level1, &TreeSpec{Kind: "dir", Children: []*TreeSpec{leaf(k, "x")}})
			}
			i := 0
			emit := func(kids []*TreeSpec) error {
				root := &TreeSpec{Name: "root", Kind: "dir"}
				for j, k := range kids {
					c := *k
					c.Name = names[j]
					root.Children = append(root.Children, &c)
				}
				ic := &ImportCase{Fam: "import", ID: fmt.Sprintf("enum-%d", i), Tree: root, W: 2}
				i++
				return runImportCase(ic, tr)
			}
			if err := emit(nil); err != nil {
				return err
			}
			for _, a := range level1 {
				if err := emit([]*TreeSpec{a}); err != nil {
					return err
				}
				for _, b := range level1 {
					if err := emit([]*TreeSpec{a, b}); err != nil {
						return err
					}
				}
			}
			// a root that is itself a file / symlink / fifo
			for k := 0; k < 8; k++ {
				ic := &ImportCase{Fam: "import", ID: fmt.Sprintf("enum-root-%d", k), Tree: leaf(k, "root"), W: 2}
				if err := runImportCase(ic, tr); err != nil {
					return err
				}
			}
		case "special":
			// file sizes at and around multiples of the default chunk size (256 KiB), at the root and one level down
			root := &TreeSpec{Name: "root", Kind: "dir"}
			sub := &TreeSpec{Name: "sub", Kind: "dir"}
			for i, sz := range []int{0, 1, 262143, 262144, 262145, 524287, 524288, 524289, 786432, 1048576} {
				root.Children = append(root.Children, &TreeSpec{Name: fmt.Sprintf("f%d", sz), Kind: "file", Size: sz, Seed: int64(i + 1)})
				if i%3 == 0 {
					sub.Children = append(sub.Children, &TreeSpec{Name: fmt.Sprintf("g%d", sz), Kind: "file", Size: sz, Seed: int64(i + 20)})
				}
			}
			root.Children = append(root.Children, sub)
			// names that begin with a dot (or look like options) are names like any other
			sub.Children = append(sub.Children, &TreeSpec{Name: ".keep", Kind: "file", Size: 0}, &TreeSpec{Name: ".config", Kind: "dir", Children: []*TreeSpec{{Name: ".nested", Kind: "file", Size: 3, Seed: 5}}})
			root.Children = append(root.Children, &TreeSpec{Name: ".gitignore", Kind: "file", Size: 12, Seed: 8}, &TreeSpec{Name: "...", Kind: "symlink", Target: ".gitignore"},
				&TreeSpec{Name: "-rf", Kind: "file", Size: 1, Seed: 2})
			if err := runImportCase(&ImportCase{Fam: "import", ID: "special-sizes", Tree: root, W: 174}, tr); err != nil {
				return err
			}
			// a file of exactly one / two chunks as the import root itself
			for _, sz := range []int{262144, 524288} {
				ic := &ImportCase{Fam: "import", ID: fmt.Sprintf("special-rootfile-%d", sz), Tree: &TreeSpec{Name: "root", Kind: "file", Size: sz, Seed: 3}, W: 174}
				if err := runImportCase(ic, tr); err != nil {
					return err
				}
			}
			// nesting: a chain of d directories below the root, every level with a file before and entries after the
			// child that leads down (names sort around it), for d = 1..12
			for d := 1; d <= 12; d++ {
				root := &TreeSpec{Name: "root", Kind: "dir"}
				cur := root
				for lvl := 1; lvl <= d; lvl++ {
					next := &TreeSpec{Name: "m-down", Kind: "dir"}
					cur.Children = append(cur.Children,
						&TreeSpec{Name: "a-before", Kind: "file", Size: 5, Seed: int64(lvl)},
						next,
						&TreeSpec{Name: "z-after", Kind: "file", Size: 7, Seed: int64(100 + lvl)},
						&TreeSpec{Name: "z-dir", Kind: "dir", Children: []*TreeSpec{{Name: "leaf", Kind: "symlink", Target: "../a-before"}}})
					cur = next
				}
				cur.Children = append(cur.Children, &TreeSpec{Name: "bottom", Kind: "file", Size: 3, Seed: 9})
				if err := runImportCase(&ImportCase{Fam: "import", ID: fmt.Sprintf("special-depth-%d", d), Tree: root, W: 3}, tr); err != nil {
					return err
				}
			}
		case "random":
			for i := 0; i < *count; i++ {
				ic := &ImportCase{Fam: "import", ID: fmt.Sprintf("rand-%d-%d", *seed, i), Tree: randomTree(r, 0, true), W: 2 + r.Intn(4)}
				if err := runImportCase(ic, tr); err != nil {
					return err
				}
			}
		case "wide":
			// directories straddling the auto-shard estimate (names of 160 bytes + 36-byte CIDs: 1337/1338 entries)
			for _, n := range []int{1336, 1337, 1338, 1339} {
				ic := &ImportCase{Fam: "import", ID: fmt.Sprintf("wide-%d", n), Tree: &TreeSpec{Name: "root", Kind: "dir"}, Wide: n, NameLen: 160}
				if err := runImportCase(ic, tr); err != nil {
					return err
				}
			}
			// names as long as a file system allows (255 and 254 bytes) in directories that cross the estimate
			for _, nl := range [][2]int{{905, 255}, {910, 254}, {890, 255}} {
				ic := &ImportCase{Fam: "import", ID: fmt.Sprintf("longnames-%d-%d", nl[0], nl[1]), Tree: &TreeSpec{Name: "root", Kind: "dir"}, Wide: nl[0], NameLen: nl[1]}
				if err := runImportCase(ic, tr); err != nil {
					return err
				}
			}
			// plain (short-named) directories around typical readdir batch sizes, at the root and one level down
			for _, n := range []int{255, 256, 257, 1023, 1024, 1025, 2048, 4096} {
				ic := &ImportCase{Fam: "import", ID: fmt.Sprintf("batch-%d", n), Tree: &TreeSpec{Name: "root", Kind: "dir"}, Wide: n, NameLen: 8}
				if err := runImportCase(ic, tr); err != nil {
					return err
				}
			}
		default:
			return fmt.Errorf("unknown -what %q", *what)
		}
		return nil
	}
}
