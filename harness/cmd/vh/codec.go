package main

import (
	"bytes"
	"encoding/json"
	"flag"
	"fmt"
	"math"
	"math/rand"
	"time"

	"github.com/gogo/protobuf/proto"
	pb "github.com/ipfs/boxo/ipld/unixfs/pb"
	"github.com/ipfs/go-unixfsnode/data"
	"github.com/ipfs/go-unixfsnode/data/builder"
	"google.golang.org/protobuf/encoding/protowire"
)

// CTok is a token of a TLC-generated presentation (spec/Codec.tla).
type CTok struct {
	F   int             `json:"f"`
	WT  string          `json:"wt"`
	V   json.RawMessage `json:"v"`
	NM  bool            `json:"nm"`
	Sub string          `json:"sub"`
}

type CodecCase struct {
	Fam  string `json:"fam"`
	ID   string `json:"id"`
	Toks []CTok `json:"toks"`
	Mut  string `json:"mut"`
	Vec  int    `json:"vec"`
	Fuzz bool   `json:"fuzz"`
	// TypeV / ModeV, when >= 0, override the vector's type / mode value (the full type x mode table)
	TypeV int64 `json:"typev"`
	ModeV int64 `json:"modev"`
}

// value vectors: value id (1,2) -> concrete boundary value, per vector index
var varintVecs = [][]uint64{
	{1, 2},
	{0, 1 << 31},
	{math.MaxUint32, 1 << 63},
	{math.MaxUint64, 300},
	{127, 128},
}
var typeVec = []uint64{2, 1, 5, 0, 4, 3}
var modeVec = []uint64{0o644, 0o755, 0, math.MaxUint32, 0o644 | 0x1000, 0o444}
var dataVec = [][]byte{[]byte("x"), {}, bytes.Repeat([]byte{0xAB}, 300), []byte("hello world"), {0}}
var secVec = []int64{1, 0, -1, 1 << 31, math.MaxInt64, math.MinInt64}

// nanoseconds are a fixed32 on the wire: the full unsigned range decodes (values from 2^31 up are not negative)
var nanoVec = []uint32{999999999, math.MaxUint32, 0, 1 << 31, 1, 123456789}

type concrete struct {
	typ, filesize, hashtype, fanout, mode *uint64
	data                                  []byte
	hasData                               bool
	bs                                    []uint64
	hasMtime                              bool
	sec                                   int64
	hasNano                               bool
	nano                                  int64 // the decoded value as such: no truncation on either side of the comparison
}

func appendVarint(b []byte, v uint64, nm bool) []byte {
	start := len(b)
	b = protowire.AppendVarint(b, v)
	if nm && len(b)-start < 10 {
		b[len(b)-1] |= 0x80
		b = append(b, 0x00)
	}
	return b
}

func tokIDs(t CTok) []int {
	var one int
	if json.Unmarshal(t.V, &one) == nil {
		return []int{one}
	}
	var many []int
	json.Unmarshal(t.V, &many)
	return many
}

func vv(vec, id int) uint64 { return varintVecs[vec%len(varintVecs)][(id-1)%2] }

// serialize renders the token stream as bytes and returns the concrete message it denotes.
var overrideType, overrideMode int64 = -1, -1

func serialize(toks []CTok, vec int) ([]byte, *concrete) {
	var b []byte
	c := &concrete{}
	u := func(x uint64) *uint64 { return &x }
	for _, t := range toks {
		if t.F == 0 {
			b = append(b, 0x00, 0x01) // field number 0: invalid tag
			continue
		}
		if t.WT == "bad" {
			b = protowire.AppendTag(b, protowire.Number(t.F), protowire.VarintType)
			b = append(b, 0x80) // truncated varint
			continue
		}
		ids := tokIDs(t)
		id := 1
		if len(ids) > 0 {
			id = ids[0]
		}
		known := t.F >= 1 && t.F <= 8
		switch t.WT {
		case "varint":
			var v uint64
			switch t.F {
			case 1:
				v = typeVec[vec%len(typeVec)]
				if overrideType >= 0 {
					v = uint64(overrideType)
				}
			case 7:
				v = modeVec[vec%len(modeVec)]
				if overrideMode >= 0 {
					v = uint64(overrideMode)
				}
			default:
				v = vv(vec, id)
			}
			b = protowire.AppendTag(b, protowire.Number(t.F), protowire.VarintType)
			b = appendVarint(b, v, t.NM)
			if known {
				switch t.F {
				case 1:
					c.typ = u(v)
				case 3:
					c.filesize = u(v)
				case 4:
					c.bs = append(c.bs, v)
				case 5:
					c.hashtype = u(v)
				case 6:
					c.fanout = u(v)
				case 7:
					c.mode = u(v)
				}
			}
		case "bytes":
			b = protowire.AppendTag(b, protowire.Number(t.F), protowire.BytesType)
			switch t.F {
			case 2:
				d := dataVec[vec%len(dataVec)]
				b = protowire.AppendBytes(b, d)
				c.data, c.hasData = d, true
			case 4:
				var run []byte
				for _, i := range ids {
					run = protowire.AppendVarint(run, vv(vec, i))
					c.bs = append(c.bs, vv(vec, i))
				}
				b = protowire.AppendBytes(b, run)
			case 8:
				var m []byte
				sec := secVec[vec%len(secVec)]
				nano := nanoVec[vec%len(nanoVec)]
				putSec := func() {
					m = protowire.AppendTag(m, 1, protowire.VarintType)
					m = protowire.AppendVarint(m, uint64(sec))
				}
				putNano := func() {
					m = protowire.AppendTag(m, 2, protowire.Fixed32Type)
					m = protowire.AppendFixed32(m, nano)
				}
				c.hasMtime, c.sec = true, sec
				switch t.Sub {
				case "s":
					putSec()
				case "sn":
					putSec()
					putNano()
					c.hasNano, c.nano = true, int64(nano)
				case "ns":
					putNano()
					putSec()
					c.hasNano, c.nano = true, int64(nano)
				case "sun":
					putSec()
					m = protowire.AppendTag(m, 9, protowire.BytesType)
					m = protowire.AppendBytes(m, []byte("??"))
					putNano()
					c.hasNano, c.nano = true, int64(nano)
				case "bad":
					m = append(m, 0x08, 0x80)
				}
				b = protowire.AppendBytes(b, m)
			default:
				b = protowire.AppendBytes(b, []byte("unknown-field-payload"))
			}
		case "fixed32":
			b = protowire.AppendTag(b, protowire.Number(t.F), protowire.Fixed32Type)
			b = protowire.AppendFixed32(b, 0xdeadbeef)
		case "fixed64":
			b = protowire.AppendTag(b, protowire.Number(t.F), protowire.Fixed64Type)
			b = protowire.AppendFixed64(b, 0xdeadbeefcafe)
		case "group":
			b = protowire.AppendTag(b, protowire.Number(t.F), protowire.StartGroupType)
			b = protowire.AppendTag(b, 1, protowire.VarintType)
			b = protowire.AppendVarint(b, 7)
			b = protowire.AppendTag(b, protowire.Number(t.F), protowire.EndGroupType)
		}
	}
	return b, c
}

func fromOurs(n data.UnixFSData) *concrete {
	c := &concrete{}
	u := func(x int64) *uint64 { y := uint64(x); return &y }
	c.typ = u(n.FieldDataType().Int())
	if n.FieldData().Exists() {
		c.hasData, c.data = true, n.FieldData().Must().Bytes()
	}
	if n.FieldFileSize().Exists() {
		c.filesize = u(n.FieldFileSize().Must().Int())
	}
	it := n.FieldBlockSizes().Iterator()
	for !it.Done() {
		_, v := it.Next()
		c.bs = append(c.bs, uint64(v.Int()))
	}
	if n.FieldHashType().Exists() {
		c.hashtype = u(n.FieldHashType().Must().Int())
	}
	if n.FieldFanout().Exists() {
		c.fanout = u(n.FieldFanout().Must().Int())
	}
	if n.FieldMode().Exists() {
		c.mode = u(n.FieldMode().Must().Int())
	}
	if n.FieldMtime().Exists() {
		mt := n.FieldMtime().Must()
		c.hasMtime, c.sec = true, mt.FieldSeconds().Int()
		if mt.FieldFractionalNanoseconds().Exists() {
			c.hasNano, c.nano = true, mt.FieldFractionalNanoseconds().Must().Int()
		}
	}
	return c
}

func fromRef(d *pb.Data) *concrete {
	c := &concrete{}
	u := func(x uint64) *uint64 { return &x }
	if d.Type != nil {
		c.typ = u(uint64(*d.Type))
	}
	if d.Data != nil {
		c.hasData, c.data = true, d.Data
	}
	if d.Filesize != nil {
		c.filesize = u(*d.Filesize)
	}
	c.bs = append(c.bs, d.Blocksizes...)
	if d.HashType != nil {
		c.hashtype = u(*d.HashType)
	}
	if d.Fanout != nil {
		c.fanout = u(*d.Fanout)
	}
	if d.Mode != nil {
		c.mode = u(uint64(*d.Mode))
	}
	if d.Mtime != nil {
		c.hasMtime = true
		if d.Mtime.Seconds != nil {
			c.sec = *d.Mtime.Seconds
		}
		if d.Mtime.Nanos != nil {
			c.hasNano, c.nano = true, int64(*d.Mtime.Nanos)
		}
	}
	return c
}

func eqU(a, b *uint64) bool {
	if a == nil || b == nil {
		return a == b
	}
	return *a == *b
}

func (c *concrete) equal(o *concrete) bool {
	if c == nil || o == nil {
		return c == o
	}
	if !eqU(c.typ, o.typ) || !eqU(c.filesize, o.filesize) || !eqU(c.hashtype, o.hashtype) || !eqU(c.fanout, o.fanout) || !eqU(c.mode, o.mode) {
		return false
	}
	if c.hasData != o.hasData || !bytes.Equal(c.data, o.data) || len(c.bs) != len(o.bs) {
		return false
	}
	for i := range c.bs {
		if c.bs[i] != o.bs[i] {
			return false
		}
	}
	if c.hasMtime != o.hasMtime || (c.hasMtime && (c.sec != o.sec || c.hasNano != o.hasNano || c.nano != o.nano)) {
		return false
	}
	return true
}

// abstract renders a decoded message in the value-id vocabulary of the spec:
// an id is reported when the decoded value equals the value the harness put
// there for that id, 99 otherwise.
func (c *concrete) abstract(want *concrete, toks []CTok, vec int) M {
	opt := func(got, exp *uint64) []int {
		if got == nil {
			return []int{}
		}
		if exp != nil && *got == *exp {
			return []int{1}
		}
		return []int{99}
	}
	m := M{"type": opt(c.typ, want.typ), "filesize": opt(c.filesize, want.filesize), "hashtype": opt(c.hashtype, want.hashtype),
		"fanout": opt(c.fanout, want.fanout), "mode": opt(c.mode, want.mode)}
	if c.hasData {
		if want.hasData && bytes.Equal(c.data, want.data) {
			m["data"] = []int{1}
		} else {
			m["data"] = []int{99}
		}
	} else {
		m["data"] = []int{}
	}
	bs := []int{}
	for _, v := range c.bs {
		switch v {
		case vv(vec, 1):
			bs = append(bs, 1)
		case vv(vec, 2):
			bs = append(bs, 2)
		default:
			bs = append(bs, 99)
		}
	}
	m["blocksizes"] = bs
	if c.hasMtime {
		sub := "s"
		for _, t := range toks {
			if t.F == 8 {
				sub = t.Sub
			}
		}
		okv := 1
		if !want.hasMtime || c.sec != want.sec || c.hasNano != want.hasNano || c.nano != want.nano {
			okv = 99
		}
		m["mtime"] = []M{{"v": okv, "sub": sub}}
	} else {
		m["mtime"] = []M{}
	}
	return m
}

func emptyAbs() M {
	return M{"type": []int{}, "data": []int{}, "filesize": []int{}, "blocksizes": []int{}, "hashtype": []int{}, "fanout": []int{},
		"mode": []int{}, "mtime": []M{}}
}

func decodeAll(b []byte) (ours data.UnixFSData, oerr error, ref *pb.Data, rerr error) {
	if pm := guard(func() { ours, oerr = data.DecodeUnixFSData(b) }); pm != nil {
		oerr = pm
	}
	var d pb.Data
	rerr = proto.Unmarshal(b, &d)
	if rerr == nil {
		ref = &d
	}
	return
}

func runCodecCase(cc *CodecCase, tr *Tr) error {
	overrideType, overrideMode = -1, -1
	if cc.TypeV > 0 || cc.ModeV > 0 || cc.ID[:4] == "perm" {
		overrideType, overrideMode = cc.TypeV, cc.ModeV
	}
	b, want := serialize(cc.Toks, cc.Vec)
	overrideType, overrideMode = -1, -1
	tr.Emit(M{"ev": "reset", "case": caseString(cc)})
	ours, oerr, ref, rerr := decodeAll(b)
	ev := M{"ev": "codec", "toks": cc.Toks, "mut": cc.Mut, "vec": cc.Vec, "panic": false, "len": len(b),
		"ours": M{"ok": oerr == nil, "msg": emptyAbs()}, "ref": M{"ok": rerr == nil, "msg": emptyAbs()}, "same": false,
		"re": M{"ok": false, "same": false}, "reencEq": false, "type": 0, "modePresent": false, "modeLow": 0, "modeDefault": false,
		"perm": -1, "permAfter": -1, "fuzzN": 0, "fuzzPanics": 0}
	if _, ok := oerr.(panicErr); ok {
		ev["panic"] = true
	}
	var oc, rc *concrete
	if oerr == nil {
		oc = fromOurs(ours)
		ev["ours"] = M{"ok": true, "msg": oc.abstract(want, cc.Toks, cc.Vec)}
	}
	if rerr == nil {
		rc = fromRef(ref)
		ev["ref"] = M{"ok": true, "msg": rc.abstract(want, cc.Toks, cc.Vec)}
	}
	if oc != nil && rc != nil {
		ev["same"] = oc.equal(rc)
	}
	if oerr == nil {
		var re []byte
		if pm := guard(func() { re = data.EncodeUnixFSData(ours) }); pm != nil {
			ev["panic"] = true
		} else {
			ev["reencEq"] = bytes.Equal(re, b)
			var d2 pb.Data
			if err := proto.Unmarshal(re, &d2); err == nil {
				// a mode equal to the type's default is elided on encode: compare modulo that
				r2 := fromRef(&d2)
				cmp := *oc
				if cmp.mode != nil && cmp.typ != nil && int(*cmp.mode) == data.DefaultPermissions(ours) {
					cmp.mode = nil
				}
				ev["re"] = M{"ok": true, "same": r2.equal(&cmp)}
			}
			ev["perm"] = ours.Permissions()
			if again, err := data.DecodeUnixFSData(re); err == nil {
				ev["permAfter"] = again.Permissions()
			}
		}
		ev["type"] = int(ours.FieldDataType().Int())
		if oc.mode != nil {
			ev["modePresent"] = true
			ev["modeLow"] = int(*oc.mode & 0xFFF)
			ev["modeDefault"] = int(*oc.mode) == data.DefaultPermissions(ours)
		}
	}
	if cc.Fuzz {
		n, p := fuzzDecoders(b)
		ev["fuzzN"], ev["fuzzPanics"] = n, p
	}
	tr.Emit(ev)
	return nil
}

// fuzzDecoders feeds every truncation and a family of bit flips of b to the
// three decoders under recover(); returns inputs tried and panics seen.
func fuzzDecoders(b []byte) (int, int) {
	n, p := 0, 0
	try := func(x []byte) {
		n++
		if pm := guard(func() {
			data.DecodeUnixFSData(x)
			data.DecodeUnixTime(x)
			data.DecodeUnixFSMetadata(x)
		}); pm != nil {
			p++
		}
	}
	for i := 0; i <= len(b); i++ {
		try(b[:i])
	}
	for i := 0; i < len(b) && i < 48; i++ {
		for _, bit := range []byte{0x80, 0x01, 0x07, 0x78} {
			x := append([]byte(nil), b...)
			x[i] ^= bit
			try(x)
		}
	}
	return n, p
}

func init() {
	caseRunners["codec"] = func(b []byte, tr *Tr) error {
		var cc CodecCase
		if err := json.Unmarshal(b, &cc); err != nil {
			return err
		}
		return runCodecCase(&cc, tr)
	}
	caseRunners["codecx"] = func(b []byte, tr *Tr) error {
		var cx CodecXCase
		if err := json.Unmarshal(b, &cx); err != nil {
			return err
		}
		return runCodecX(&cx, tr)
	}
	caseRunners["bopt"] = func(b []byte, tr *Tr) error {
		var bc BOptCase
		if err := json.Unmarshal(b, &bc); err != nil {
			return err
		}
		return runBOptCase(&bc, tr)
	}
	cmds["bopt-replay"] = func(args []string) error {
		fs := flag.NewFlagSet("bopt-replay", flag.ExitOnError)
		cases := fs.String("cases", "", "TLC-exported option sequences")
		out := fs.String("out", "", "trace output")
		fs.Parse(args)
		tr, err := NewTr(*out)
		if err != nil {
			return err
		}
		defer tr.Close()
		i := 0
		return readJSONLines(*cases, func(raw json.RawMessage) error {
			var opts []BOpt
			if err := json.Unmarshal(raw, &opts); err != nil {
				return err
			}
			if opts == nil {
				opts = []BOpt{}
			}
			i++
			return runBOptCase(&BOptCase{Fam: "bopt", ID: fmt.Sprintf("bopt-%d", i), Opts: opts}, tr)
		})
	}
	cmds["codec-replay"] = func(args []string) error {
		fs := flag.NewFlagSet("codec-replay", flag.ExitOnError)
		cases := fs.String("cases", "", "TLC-exported presentations")
		vecs := fs.Int("vecs", 3, "value vectors per presentation")
		fuzzEvery := fs.Int("fuzzevery", 25, "fuzz every k-th case")
		out := fs.String("out", "", "trace output")
		fs.Parse(args)
		tr, err := NewTr(*out)
		if err != nil {
			return err
		}
		defer tr.Close()
		i := 0
		return readJSONLines(*cases, func(raw json.RawMessage) error {
			var c struct {
				Toks []CTok `json:"toks"`
				Mut  string `json:"mut"`
			}
			if err := json.Unmarshal(raw, &c); err != nil {
				return err
			}
			for v := 0; v < *vecs; v++ {
				vec := (i + v) % 6
				cc := &CodecCase{Fam: "codec", ID: fmt.Sprintf("codec-%d-%d", i, vec), Toks: c.Toks, Mut: c.Mut, Vec: vec,
					Fuzz: i%*fuzzEvery == 0}
				if err := runCodecCase(cc, tr); err != nil {
					return err
				}
			}
			i++
			return nil
		})
	}
	cmds["codec-gen"] = func(args []string) error {
		fs := flag.NewFlagSet("codec-gen", flag.ExitOnError)
		seed := fs.Int64("seed", 1, "seed")
		count := fs.Int("count", 200, "random cases")
		out := fs.String("out", "", "trace output")
		fs.Parse(args)
		tr, err := NewTr(*out)
		if err != nil {
			return err
		}
		defer tr.Close()
		r := rand.New(rand.NewSource(*seed))
		// full messages (all eight fields) in canonical order, each block-size presentation, every vector
		raw := func(x any) json.RawMessage { b, _ := json.Marshal(x); return b }
		for bi, bsToks := range [][]CTok{
			{},
			{{F: 4, WT: "varint", V: raw(1)}},
			{{F: 4, WT: "varint", V: raw(1)}, {F: 4, WT: "varint", V: raw(2)}},
			{{F: 4, WT: "bytes", V: raw([]int{1, 2})}},
			{{F: 4, WT: "bytes", V: raw([]int{})}},
		} {
			for _, sub := range []string{"s", "sn", "ns", "sun"} {
				for vec := 0; vec < 6; vec++ {
					toks := []CTok{{F: 1, WT: "varint", V: raw(1), Sub: "s"}, {F: 2, WT: "bytes", V: raw(1), Sub: "s"}, {F: 3, WT: "varint", V: raw(1), Sub: "s"}}
					for _, t := range bsToks {
						t.Sub = "s"
						toks = append(toks, t)
					}
					toks = append(toks, CTok{F: 5, WT: "varint", V: raw(1), Sub: "s"}, CTok{F: 6, WT: "varint", V: raw(1), Sub: "s"},
						CTok{F: 7, WT: "varint", V: raw(1), Sub: "s"}, CTok{F: 8, WT: "bytes", V: raw(1), Sub: sub})
					cc := &CodecCase{Fam: "codec", ID: fmt.Sprintf("full-%d-%s-%d", bi, sub, vec), Toks: toks, Mut: "none", Vec: vec, Fuzz: true}
					if err := runCodecCase(cc, tr); err != nil {
						return err
					}
				}
			}
		}
		// long block-size lists (a wide file node has hundreds): one packed run / one tag per element, 256..1024 elements
		for _, n := range []int{255, 256, 257, 300, 1024} {
			ids := make([]int, n)
			var unpacked []CTok
			for i := range ids {
				ids[i] = 1 + i%2
				unpacked = append(unpacked, CTok{F: 4, WT: "varint", V: raw(1 + i%2), Sub: "s"})
			}
			for pi, bs := range [][]CTok{{{F: 4, WT: "bytes", V: raw(ids), Sub: "s"}}, unpacked} {
				toks := append([]CTok{{F: 1, WT: "varint", V: raw(1), Sub: "s"}, {F: 3, WT: "varint", V: raw(1), Sub: "s"}}, bs...)
				cc := &CodecCase{Fam: "codec", ID: fmt.Sprintf("wide-%d-%d", n, pi), Toks: toks, Mut: "none", Vec: n % 2}
				if err := runCodecCase(cc, tr); err != nil {
					return err
				}
			}
		}
		// the permission table: every type x a family of modes, with and without an mtime
		for ty := int64(0); ty < 6; ty++ {
			for _, mode := range []int64{0, 1, 0o444, 0o555, 0o644, 0o755, 0o7777, 0o100644, 0o40755, 0xFFFFFFFF} {
				for _, withTime := range []bool{false, true} {
					toks := []CTok{{F: 1, WT: "varint", V: raw(1), Sub: "s"}, {F: 7, WT: "varint", V: raw(1), Sub: "s"}}
					if withTime {
						toks = append(toks, CTok{F: 8, WT: "bytes", V: raw(1), Sub: "sn"})
					}
					cc := &CodecCase{Fam: "codec", ID: fmt.Sprintf("perm-%d-%o-%v", ty, mode, withTime), Toks: toks, Mut: "none", Vec: int(ty+mode) % 6,
						TypeV: ty, ModeV: mode}
					if err := runCodecCase(cc, tr); err != nil {
						return err
					}
				}
			}
		}
		for i := 0; i < *count; i++ {
			cx := &CodecXCase{Fam: "codecx", ID: fmt.Sprintf("codecx-%d-%d", *seed, i), Seed: r.Int63(), Kind: []string{"built", "time", "meta", "bytes"}[i%4]}
			if err := runCodecX(cx, tr); err != nil {
				return err
			}
		}
		return nil
	}
}

// BOptCase: one option sequence for builder.BuildUnixFS (spec/BuilderOps.tla).
type BOpt struct {
	O   string `json:"o"`
	V   int64  `json:"v"`
	Bad bool   `json:"bad"`
}
type BOptCase struct {
	Fam  string `json:"fam"`
	ID   string `json:"id"`
	Opts []BOpt `json:"opts"`
}

func runBOptCase(bc *BOptCase, tr *Tr) error {
	tr.Emit(M{"ev": "reset", "case": caseString(bc)})
	ev := M{"ev": "bopt", "opts": bc.Opts, "out": "ok", "type": -1, "mode": -1, "nbs": -1, "panic": false,
		"msec": -1, "mnano": -1, "fsize": -1, "hash": -1, "fanout": -1, "hasdata": false}
	var n data.UnixFSData
	var err error
	pm := guard(func() {
		n, err = builder.BuildUnixFS(func(b *builder.Builder) {
			for _, o := range bc.Opts {
				switch o.O {
				case "type":
					builder.DataType(b, o.V)
				case "perm":
					builder.Permissions(b, int(o.V))
				case "permstr":
					s := fmt.Sprintf("0%o", o.V)
					if o.V == 755 {
						s = "755"
					}
					if o.Bad {
						s = "rwxr-xr-x"
					}
					builder.PermissionsString(b, s)
				case "mtime":
					builder.Mtime(b, func(tb builder.TimeBuilder) {
						if !o.Bad {
							builder.Seconds(tb, 5)
						}
						if o.V >= 0 {
							builder.FractionalNanoseconds(tb, int32(o.V))
						}
					})
				case "mtimet":
					builder.Mtime(b, func(tb builder.TimeBuilder) { builder.Time(tb, time.Unix(5, o.V)) })
				case "bs":
					builder.BlockSizes(b, make([]uint64, o.V))
				case "data":
					builder.Data(b, []byte("d"))
				case "fsize":
					builder.FileSize(b, uint64(o.V))
				case "hash":
					builder.HashType(b, uint64(o.V))
				case "fanout":
					builder.Fanout(b, uint64(o.V))
				}
			}
		})
	})
	switch {
	case pm != nil:
		ev["out"], ev["panic"] = "panic", true
	case err != nil:
		ev["out"] = "error"
	default:
		ev["type"] = n.FieldDataType().Int()
		if n.FieldMode().Exists() {
			ev["mode"] = n.FieldMode().Must().Int()
		}
		ev["nbs"] = n.FieldBlockSizes().Length()
		if n.FieldMtime().Exists() {
			mt := n.FieldMtime().Must()
			ev["msec"] = mt.FieldSeconds().Int()
			if mt.FieldFractionalNanoseconds().Exists() {
				ev["mnano"] = mt.FieldFractionalNanoseconds().Must().Int()
			}
		}
		if n.FieldFileSize().Exists() {
			ev["fsize"] = n.FieldFileSize().Must().Int()
		}
		if n.FieldHashType().Exists() {
			ev["hash"] = n.FieldHashType().Must().Int()
		}
		if n.FieldFanout().Exists() {
			ev["fanout"] = n.FieldFanout().Must().Int()
		}
		ev["hasdata"] = n.FieldData().Exists()
	}
	tr.Emit(ev)
	return nil
}

// CodecXCase: builder-made messages, the UnixTime and Metadata decoders, random bytes.
type CodecXCase struct {
	Fam  string `json:"fam"`
	ID   string `json:"id"`
	Seed int64  `json:"seed"`
	Kind string `json:"kind"`
}

func runCodecX(cx *CodecXCase, tr *Tr) error {
	r := rand.New(rand.NewSource(cx.Seed))
	tr.Emit(M{"ev": "reset", "case": caseString(cx)})
	ev := M{"ev": "codecx", "kind": cx.Kind, "ok": true, "same": true, "panic": false, "perm": 0, "wantPerm": 0}
	pick64 := func() uint64 {
		return []uint64{0, 1, 127, 128, 1 << 31, math.MaxUint32, 1 << 62, uint64(r.Int63())}[r.Intn(8)]
	}
	pm := guard(func() {
		switch cx.Kind {
		case "built":
			typ := int64(r.Intn(6))
			var want concrete
			tv := uint64(typ)
			want.typ = &tv
			n, err := builder.BuildUnixFS(func(b *builder.Builder) {
				builder.DataType(b, typ)
				if r.Intn(2) == 0 {
					d := dataVec[r.Intn(len(dataVec))]
					builder.Data(b, d)
					want.hasData, want.data = true, d
				}
				if r.Intn(2) == 0 {
					v := pick64() & math.MaxInt64
					builder.FileSize(b, v)
					want.filesize = &v
				}
				if r.Intn(2) == 0 {
					k := r.Intn(4)
					bs := make([]uint64, k)
					for i := range bs {
						bs[i] = pick64() & math.MaxInt64
					}
					builder.BlockSizes(b, bs)
					want.bs = bs
				}
				if r.Intn(3) == 0 {
					v := pick64() & math.MaxInt64
					builder.HashType(b, v)
					want.hashtype = &v
				}
				if r.Intn(3) == 0 {
					v := pick64() & math.MaxInt64
					builder.Fanout(b, v)
					want.fanout = &v
				}
				if r.Intn(2) == 0 {
					mode := []int{0o644, 0o755, 0o777, 0, 0o7777, 0o10644, 0x7fffffff}[r.Intn(7)]
					builder.Permissions(b, mode)
					v := uint64(mode & 0xFFF)
					want.mode = &v
				}
				if r.Intn(3) == 0 {
					sec := []int64{0, 1, -1, 1 << 31, math.MaxInt64}[r.Intn(5)]
					builder.Mtime(b, func(tb builder.TimeBuilder) {
						builder.Seconds(tb, sec)
						want.hasMtime, want.sec = true, sec
						if r.Intn(2) == 0 {
							ns := int32(r.Intn(1000000000))
							builder.FractionalNanoseconds(tb, ns)
							want.hasNano, want.nano = true, int64(uint32(ns))
						}
					})
				}
			})
			if err != nil {
				ev["ok"] = false
				return
			}
			enc := data.EncodeUnixFSData(n)
			var d pb.Data
			if err := proto.Unmarshal(enc, &d); err != nil {
				ev["ok"] = false
				return
			}
			got := fromRef(&d)
			// a default mode is elided on encode
			wantPerm := data.DefaultPermissions(n)
			if want.mode != nil {
				wantPerm = int(*want.mode)
				if int(*want.mode) == data.DefaultPermissions(n) {
					want.mode = nil
				}
			}
			ev["same"] = got.equal(&want)
			ev["wantPerm"] = wantPerm
			again, err := data.DecodeUnixFSData(enc)
			if err != nil {
				ev["ok"] = false
				return
			}
			ev["perm"] = again.Permissions()
		case "time":
			var m []byte
			sec := []int64{0, 1, -1, 1 << 31, math.MaxInt64, math.MinInt64}[r.Intn(6)]
			nano := uint32(r.Intn(1000000000))
			if r.Intn(4) == 0 {
				nano = []uint32{1 << 31, math.MaxUint32, 1<<31 + 5}[r.Intn(3)] // fixed32 values with the top bit set
			}
			hasNano := r.Intn(2) == 0
			order := r.Intn(2)
			put := func(which int) {
				if which == 0 {
					m = protowire.AppendTag(m, 1, protowire.VarintType)
					m = appendVarint(m, uint64(sec), r.Intn(4) == 0 && sec >= 0 && sec < 1<<31)
				} else if hasNano {
					m = protowire.AppendTag(m, 2, protowire.Fixed32Type)
					m = protowire.AppendFixed32(m, nano)
				}
			}
			if r.Intn(3) == 0 {
				m = protowire.AppendTag(m, 7, protowire.BytesType)
				m = protowire.AppendBytes(m, []byte("zz"))
			}
			put(order)
			put(1 - order)
			ut, err := data.DecodeUnixTime(m)
			var rt pb.IPFSTimestamp
			rerr := proto.Unmarshal(m, &rt)
			ev["ok"] = err == nil && rerr == nil
			if err == nil && rerr == nil {
				same := ut.FieldSeconds().Int() == rt.GetSeconds() && ut.FieldSeconds().Int() == sec
				same = same && ut.FieldFractionalNanoseconds().Exists() == (rt.Nanos != nil) && (rt.Nanos != nil) == hasNano
				if hasNano && same {
					same = ut.FieldFractionalNanoseconds().Must().Int() == int64(rt.GetNanos()) && rt.GetNanos() == nano
				}
				ev["same"] = same
			}
		case "meta":
			var m []byte
			mime := []string{"", "text/plain", "application/ünï", string(bytes.Repeat([]byte("m"), 200))}[r.Intn(4)]
			has := r.Intn(4) != 0
			if r.Intn(3) == 0 {
				m = protowire.AppendTag(m, 5, protowire.Fixed64Type)
				m = protowire.AppendFixed64(m, 9)
			}
			if has {
				m = protowire.AppendTag(m, 1, protowire.BytesType)
				m = protowire.AppendBytes(m, []byte(mime))
			}
			if r.Intn(3) == 0 {
				m = protowire.AppendTag(m, 3, protowire.VarintType)
				m = protowire.AppendVarint(m, 77)
			}
			md, err := data.DecodeUnixFSMetadata(m)
			var rm pb.Metadata
			rerr := proto.Unmarshal(m, &rm)
			ev["ok"] = err == nil && rerr == nil
			if err == nil && rerr == nil {
				same := md.FieldMimeType().Exists() == (rm.MimeType != nil) && (rm.MimeType != nil) == has
				if has && same {
					same = md.FieldMimeType().Must().String() == rm.GetMimeType() && rm.GetMimeType() == mime
				}
				// and our encoding of it is read back by the reference
				enc := data.EncodeUnixFSMetadata(md)
				var rm2 pb.Metadata
				if err := proto.Unmarshal(enc, &rm2); err != nil || (rm2.MimeType != nil) != has || (has && rm2.GetMimeType() != mime) {
					same = false
				}
				ev["same"] = same
			}
		case "bytes":
			// arbitrary bytes: value or error, never a panic (checked by the guard)
			x := make([]byte, r.Intn(64))
			r.Read(x)
			data.DecodeUnixFSData(x)
			data.DecodeUnixTime(x)
			data.DecodeUnixFSMetadata(x)
		}
	})
	if pm != nil {
		ev["panic"] = true
	}
	tr.Emit(ev)
	return nil
}
