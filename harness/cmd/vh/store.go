package main

import (
	"bytes"
	"context"
	"errors"
	"fmt"
	"io"
	"os"
	"runtime"
	"sync"

	"github.com/ipfs/boxo/ipld/merkledag"
	blocks "github.com/ipfs/go-block-format"
	"github.com/ipfs/go-cid"
	format "github.com/ipfs/go-ipld-format"
	dagpb "github.com/ipld/go-codec-dagpb"
	"github.com/ipld/go-ipld-prime"
	_ "github.com/ipld/go-ipld-prime/codec/raw"
	"github.com/ipld/go-ipld-prime/datamodel"
	"github.com/ipld/go-ipld-prime/linking"
	cidlink "github.com/ipld/go-ipld-prime/linking/cid"
	"github.com/ipld/go-ipld-prime/node/basicnode"
)

// errInjected is the "arbitrary I/O error" kind; errNotFound the not-found kind.
var errInjected = errors.New("verif: injected I/O error")

type notFoundErr struct{ c cid.Cid }

func (e notFoundErr) Error() string  { return "verif: block not found " + e.c.String() }
func (e notFoundErr) NotFound() bool { return true }
func (e notFoundErr) Is(t error) bool {
	return t == os.ErrNotExist
}

// timeoutErr is the "transient network" kind: it reports itself as a timeout.
type timeoutErr struct{}

func (timeoutErr) Error() string   { return "verif: injected i/o timeout" }
func (timeoutErr) Timeout() bool   { return true }
func (timeoutErr) Temporary() bool { return true }

// CommitEv is one committed block as seen by the storage write opener.
type CommitEv struct {
	Cid   cid.Cid
	Len   int
	Bytes []byte
}

// Store is the instrumented content-addressed block store every harness run
// owns.  All reads and writes of the library under test go through the
// LinkSystem it hands out, which is the only observation point the file,
// directory, selector and importer families need.
type Store struct {
	blocks map[string][]byte
	order  []cid.Cid

	// read side
	logLoads   bool
	loads      []cid.Cid
	failed     []cid.Cid
	missing    map[string]bool
	failLoadAt int // k-th load attempt from now fails (1-based), 0 = off
	loadCount  int
	notFound   bool // kind of injected error
	timeout    bool // kind of injected error (wins over notFound)
	// errKind, when set, wins over both: "eofwrap" = an I/O error that wraps io.EOF (errors.Is(err, io.EOF) holds, the
	// error is not io.EOF itself, e.g. a store over a truncated data file); "eof" = io.EOF itself; "unexpectedeof"
	errKind string
	// writeErrKind: the same kinds for injected write failures ("" = errInjected)
	writeErrKind string

	// parallel: several builders write through this store at once (build variants): every access takes mu
	// (never set for the concurrent *read* scenarios of C17, whose read path must not synchronise the goroutines)
	parallel bool
	mu       sync.Mutex

	onLoad  func(c cid.Cid)  // called at the start of every block read (schedule replay)
	targets []cid.Cid        // the pre-existing entry targets (putTargets)
	lastLS  *ipld.LinkSystem // the link system the latest build on this store went through (build variants)

	// write side
	logWrites    bool
	opens        int
	commits      []CommitEv
	failOpenAt   int
	failCommitAt int
	commitCount  int
	wevents      []WriteEv
}

// WriteEv is the raw sequence of write-side events (open / commit / fail).
type WriteEv struct {
	Kind string // "open", "commit", "openfail", "commitfail"
	Cid  cid.Cid
	Len  int
}

func NewStore() *Store {
	return &Store{blocks: map[string][]byte{}, missing: map[string]bool{}}
}

func key(c cid.Cid) string { return string(c.Hash()) }

func (s *Store) Has(c cid.Cid) bool { _, ok := s.Get(c); return ok }
func (s *Store) Get(c cid.Cid) ([]byte, bool) {
	if s.parallel {
		s.mu.Lock()
		defer s.mu.Unlock()
	}
	b, ok := s.blocks[key(c)]
	return b, ok
}
func (s *Store) Put(c cid.Cid, b []byte) {
	if s.parallel {
		s.mu.Lock()
		defer s.mu.Unlock()
	}
	s.put(c, b)
}

// put: the caller holds mu when the store is shared between builders
func (s *Store) put(c cid.Cid, b []byte) {
	if _, ok := s.blocks[key(c)]; !ok {
		s.order = append(s.order, c)
	}
	s.blocks[key(c)] = b
}

func (s *Store) ResetLog() {
	s.loads = nil
	s.failed = nil
}

func (s *Store) TakeLoads() (loads, failed []cid.Cid) {
	loads, failed = s.loads, s.failed
	s.loads, s.failed = nil, nil
	return
}

func (s *Store) ClearFaults() {
	s.missing = map[string]bool{}
	s.failLoadAt = 0
	s.loadCount = 0
	s.failOpenAt = 0
	s.failCommitAt = 0
	s.commitCount = 0
	s.opens = 0
}

func kindErr(kind string) error {
	switch kind {
	case "eofwrap":
		return fmt.Errorf("verif: injected read of a truncated data file: %w", io.EOF)
	case "eof":
		return io.EOF
	case "unexpectedeof":
		return io.ErrUnexpectedEOF
	}
	return errInjected
}

func (s *Store) injErr(c cid.Cid) error {
	if s.errKind != "" {
		return kindErr(s.errKind)
	}
	if s.timeout {
		return timeoutErr{}
	}
	if s.notFound {
		return notFoundErr{c}
	}
	return errInjected
}

func (s *Store) LinkSystem() *ipld.LinkSystem {
	ls := cidlink.DefaultLinkSystem()
	ls.TrustedStorage = true
	ls.StorageReadOpener = func(lctx linking.LinkContext, l datamodel.Link) (io.Reader, error) {
		cl, ok := l.(cidlink.Link)
		if !ok {
			return nil, fmt.Errorf("not a cid link")
		}
		if f := s.onLoad; f != nil {
			f(cl.Cid) // schedule replay: a reader may be parked here, inside the load, before the store sees it
		}
		if s.parallel {
			s.mu.Lock()
			defer s.mu.Unlock()
		}
		if s.logLoads {
			s.loads = append(s.loads, cl.Cid)
			s.loadCount++
			if s.missing[key(cl.Cid)] || (s.failLoadAt > 0 && s.loadCount == s.failLoadAt) {
				s.failed = append(s.failed, cl.Cid)
				return nil, s.injErr(cl.Cid)
			}
		} else if len(s.missing) > 0 && s.missing[key(cl.Cid)] {
			// concurrent scenarios: no logging (the read path must not synchronise goroutines), the set is read-only
			return nil, s.injErr(cl.Cid)
		}
		b, ok := s.blocks[key(cl.Cid)]
		if !ok {
			if s.logLoads {
				s.failed = append(s.failed, cl.Cid)
			}
			return nil, notFoundErr{cl.Cid}
		}
		return bytes.NewReader(b), nil
	}
	ls.StorageWriteOpener = func(lctx linking.LinkContext) (io.Writer, linking.BlockWriteCommitter, error) {
		if s.parallel {
			s.mu.Lock()
			defer s.mu.Unlock()
		}
		s.opens++
		if s.failOpenAt > 0 && s.opens == s.failOpenAt {
			s.wevents = append(s.wevents, WriteEv{Kind: "openfail"})
			return nil, nil, kindErr(s.writeErrKind)
		}
		if s.logWrites {
			s.wevents = append(s.wevents, WriteEv{Kind: "open"})
		}
		buf := &bytes.Buffer{}
		return buf, func(l datamodel.Link) error {
			cl, ok := l.(cidlink.Link)
			if !ok {
				return fmt.Errorf("not a cid link")
			}
			if s.parallel {
				runtime.Gosched() // let the other builders run between a block's encoding and its commit
				s.mu.Lock()
				defer s.mu.Unlock()
			}
			s.commitCount++
			if s.failCommitAt > 0 && s.commitCount == s.failCommitAt {
				s.wevents = append(s.wevents, WriteEv{Kind: "commitfail", Cid: cl.Cid, Len: buf.Len()})
				return kindErr(s.writeErrKind)
			}
			b := append([]byte(nil), buf.Bytes()...)
			s.put(cl.Cid, b)
			if s.logWrites {
				s.commits = append(s.commits, CommitEv{Cid: cl.Cid, Len: len(b), Bytes: b})
				s.wevents = append(s.wevents, WriteEv{Kind: "commit", Cid: cl.Cid, Len: len(b)})
			}
			return nil
		}, nil
	}
	return &ls
}

// loadNode loads a block as an ipld node the way a traversal would: dag-pb
// blocks into the dag-pb prototype, anything else into basicnode.Any.
func loadNode(ls *ipld.LinkSystem, c cid.Cid) (ipld.Node, error) {
	var proto ipld.NodePrototype = basicnode.Prototype.Any
	if c.Prefix().Codec == cid.DagProtobuf {
		proto = dagpb.Type.PBNode
	}
	return ls.Load(ipld.LinkContext{Ctx: context.Background()}, cidlink.Link{Cid: c}, proto)
}

// ---- boxo DAGService over the same store (for the reference writers) ----

type dagServ struct{ s *Store }

func (d dagServ) decode(c cid.Cid, b []byte) (format.Node, error) {
	blk, err := blocks.NewBlockWithCid(b, c)
	if err != nil {
		return nil, err
	}
	switch c.Prefix().Codec {
	case cid.DagProtobuf:
		return merkledag.DecodeProtobufBlock(blk)
	case cid.Raw:
		return merkledag.DecodeRawBlock(blk)
	}
	return nil, fmt.Errorf("unsupported codec %d", c.Prefix().Codec)
}

func (d dagServ) Get(ctx context.Context, c cid.Cid) (format.Node, error) {
	b, ok := d.s.Get(c)
	if !ok {
		return nil, format.ErrNotFound{Cid: c}
	}
	return d.decode(c, b)
}
func (d dagServ) GetMany(ctx context.Context, cs []cid.Cid) <-chan *format.NodeOption {
	ch := make(chan *format.NodeOption, len(cs))
	for _, c := range cs {
		n, err := d.Get(ctx, c)
		ch <- &format.NodeOption{Node: n, Err: err}
	}
	close(ch)
	return ch
}
func (d dagServ) Add(ctx context.Context, n format.Node) error {
	d.s.Put(n.Cid(), n.RawData())
	return nil
}
func (d dagServ) AddMany(ctx context.Context, ns []format.Node) error {
	for _, n := range ns {
		d.s.Put(n.Cid(), n.RawData())
	}
	return nil
}
func (d dagServ) Remove(ctx context.Context, c cid.Cid) error       { return nil }
func (d dagServ) RemoveMany(ctx context.Context, c []cid.Cid) error { return nil }
