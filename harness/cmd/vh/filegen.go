package main

import (
	"encoding/json"
	"flag"
	"fmt"
	"math/rand"
)

type shape struct{ n, w, k, last int }

func (s shape) length() int {
	if s.n == 0 {
		return 0
	}
	return (s.n-1)*s.k + s.last
}

var defaultWriter = "own"

func (s shape) fileCase(id string) *FileCase {
	if defaultWriter != "own" {
		id += "-" + defaultWriter
	}
	return &FileCase{Fam: "file", ID: id, Len: s.length(), Chunker: fmt.Sprintf("size-%d", s.k), W: s.w,
		Content: "distinct", Writer: defaultWriter, Open: "direct"}
}

func shapes(maxN int, widths []int, k int) []shape {
	var out []shape
	for _, w := range widths {
		for n := 0; n <= maxN; n++ {
			out = append(out, shape{n, w, k, k})
			if n > 0 && k > 1 {
				out = append(out, shape{n, w, k, 1})
			}
		}
	}
	return out
}

func uniq(xs []int) []int {
	seen := map[int]bool{}
	var out []int
	for _, x := range xs {
		if x > 0 && !seen[x] {
			seen[x] = true
			out = append(out, x)
		}
	}
	return out
}

var boxoWriters = []string{
	"boxo-balanced-raw-v1", "boxo-balanced-pb-v1", "boxo-balanced-pb-v0", "boxo-balanced-raw-v0",
	"boxo-trickle-raw-v1", "boxo-trickle-pb-v0",
}

func init() {
	// file-hist: replay TLC-exported Seek/Read histories on real readers
	cmds["file-hist"] = func(args []string) error {
		fs := flag.NewFlagSet("file-hist", flag.ExitOnError)
		n := fs.Int("n", 5, "chunks")
		w := fs.Int("w", 2, "width")
		k := fs.Int("k", 3, "chunk size")
		last := fs.Int("last", 2, "last chunk size")
		cases := fs.String("cases", "", "file with one JSON history per line")
		open := fs.String("open", "direct", "open mode")
		writer := fs.String("writer", "own", "writer")
		out := fs.String("out", "", "trace output")
		readers := fs.Int("readers", 2, "number of readers opened up front")
		fs.Parse(args)
		tr, err := NewTr(*out)
		if err != nil {
			return err
		}
		defer tr.Close()
		sh := shape{*n, *w, *k, *last}
		i := 0
		return readJSONLines(*cases, func(raw json.RawMessage) error {
			var hist [][]any
			if err := json.Unmarshal(raw, &hist); err != nil {
				return err
			}
			fc := sh.fileCase(fmt.Sprintf("hist-%d-%d-%d-%d-%s-%d", *n, *w, *k, *last, *open, i))
			i++
			fc.Open = *open
			fc.Writer = *writer
			fc.Mode = "hist"
			for r := 1; r <= *readers; r++ {
				fc.Script = append(fc.Script, []any{"open", r})
			}
			fc.Script = append(fc.Script, hist...)
			return runFileCase(fc, tr)
		})
	}

	// file-gen: enumerated and random scenarios
	cmds["file-gen"] = func(args []string) error {
		fs := flag.NewFlagSet("file-gen", flag.ExitOnError)
		what := fs.String("what", "seq", "seq|range|fault|preload|writers|random")
		maxN := fs.Int("maxn", 10, "max chunk count")
		wmax := fs.Int("wmax", 4, "max width")
		k := fs.Int("k", 3, "chunk size")
		seed := fs.Int64("seed", 1, "seed")
		count := fs.Int("count", 50, "random cases")
		out := fs.String("out", "", "trace output")
		genWriter := fs.String("writer", "own", "writer for the enumerated shapes: own | own-nobs | boxo-...")
		fs.Parse(args)
		tr, err := NewTr(*out)
		if err != nil {
			return err
		}
		defer tr.Close()
		defaultWriter = *genWriter
		var widths []int
		for w := 2; w <= *wmax; w++ {
			widths = append(widths, w)
		}
		shs := shapes(*maxN, widths, *k)
		switch *what {
		case "seq":
			for _, sh := range shs {
				L := sh.length()
				for _, open := range []string{"direct", "reify", "preload"} {
					fc := sh.fileCase(fmt.Sprintf("seq-%d-%d-%d-%s", sh.n, sh.w, sh.last, open))
					fc.Open = open
					fc.Mode = "seq"
					fc.Script = append(fc.Script, []any{"asbytes"})
					// the length asked of a fresh reader before anything was read from it (how byte-range matchers start)
					fc.Script = append(fc.Script, []any{"open", 2}, []any{"seek", 2, 0, 2}, []any{"seek", 2, -1, 2}, []any{"read", 2, 2})
					for _, b := range uniq([]int{1, 2, sh.k - 1, sh.k, sh.k + 1, 2*sh.k + 1, L, L + 7}) {
						fc.Script = append(fc.Script, []any{"open", 1}, []any{"readall", 1, b}, []any{"seek", 1, 0, 2})
					}
					// rewind / seek-to-end on a reader that has already streamed, then read again
					fc.Script = append(fc.Script, []any{"read", 1, 2}, []any{"seek", 1, 0, 0}, []any{"read", 1, sh.k + 1},
						[]any{"seek", 1, 0, 2}, []any{"read", 1, 1}, []any{"seek", 1, 0, 0}, []any{"readall", 1, sh.k + 2})
					if err := runFileCase(fc, tr); err != nil {
						return err
					}
					// the same node opened with a zero LinkContext / a nil context (which go-ipld-prime accepts)
					nc := sh.fileCase(fmt.Sprintf("seq-%d-%d-%d-%s-nilctx", sh.n, sh.w, sh.last, open))
					nc.Open, nc.Mode, nc.NilCtx = open, "seq", true
					nc.Script = [][]any{{"asbytes"}, {"open", 1}, {"readall", 1, L + 7}}
					if err := runFileCase(nc, tr); err != nil {
						return err
					}
				}
			}
		case "deep":
			// narrow widths with many one-byte chunks (trees of 8..10 levels), and contents with repeated chunks
			for _, nw := range [][2]int{{128, 2}, {129, 2}, {130, 2}, {257, 2}, {730, 3}, {1024, 1024}, {1025, 1024}} {
				if nw[0] > *maxN {
					continue
				}
				sh := shape{nw[0], nw[1], 1, 1}
				for _, open := range []string{"direct", "preload", "reify"} {
					fc := sh.fileCase(fmt.Sprintf("deep-%d-%d-%s", sh.n, sh.w, open))
					fc.Open = open
					fc.Content = "random"
					fc.Seed = int64(sh.n)
					fc.Mode = "deep"
					fc.Script = [][]any{{"asbytes"}, {"open", 1}, {"readall", 1, 50}, {"seek", 1, 0, 2}, {"seek", 1, sh.n - 2, 0}, {"readall", 1, 7}}
					if err := runFileCase(fc, tr); err != nil {
						return err
					}
				}
			}
			for pat := 0; pat < 64; pat++ {
				for _, w := range []int{2, 3} {
					fc := &FileCase{Fam: "file", ID: fmt.Sprintf("repeat-%d-%d", pat, w), Len: 12, Chunker: "size-2", W: w,
						Content: fmt.Sprintf("pattern:%d", pat), Writer: defaultWriter, Open: []string{"direct", "reify", "preload"}[pat%3], Mode: "repeat"}
					fc.Script = [][]any{{"asbytes"}, {"open", 1}, {"readall", 1, 3}, {"seek", 1, 0, 2}}
					for a := 0; a < 12; a++ {
						fc.Script = append(fc.Script, []any{"seek", 1, a, 0}, []any{"read", 1, 5})
					}
					if err := runFileCase(fc, tr); err != nil {
						return err
					}
				}
			}
		case "seqrepeat":
			// contents whose chunks repeat (the same block linked several times, also with other blocks in between):
			// cold whole reads, streamed reads and preloads
			for pat := 0; pat < 64; pat++ {
				for _, w := range []int{2, 3} {
					for _, open := range []string{"direct", "preload"} {
						fc := &FileCase{Fam: "file", ID: fmt.Sprintf("seqrepeat-%d-%d-%s", pat, w, open), Len: 12, Chunker: "size-2", W: w,
							Content: fmt.Sprintf("pattern:%d", pat), Writer: defaultWriter, Open: open, Mode: "seq"}
						fc.Script = [][]any{{"asbytes"}, {"open", 1}, {"readall", 1, 3}, {"seek", 1, 0, 2}}
						if err := runFileCase(fc, tr); err != nil {
							return err
						}
					}
				}
			}
		case "range":
			for _, sh := range shs {
				L := sh.length()
				for _, open := range []string{"direct", "reify"} {
					fc := sh.fileCase(fmt.Sprintf("range-%d-%d-%d-%s", sh.n, sh.w, sh.last, open))
					fc.Open = open
					fc.Mode = "range"
					for a := 0; a <= L; a++ {
						for b := a; b <= L; b++ {
							fc.Script = append(fc.Script, []any{"open", 1}, []any{"seek", 1, a, 0}, []any{"readfull", 1, b - a})
						}
					}
					// the same ranges through a subset-matcher traversal (non-empty ranges)
					if open == "reify" {
						for a := 0; a < L; a++ {
							for b := a + 1; b <= L; b++ {
								fc.Script = append(fc.Script, []any{"subset", a, b})
							}
						}
					}
					if err := runFileCase(fc, tr); err != nil {
						return err
					}
				}
			}
		case "fault", "preload":
			for _, sh := range shs {
				L := sh.length()
				// number of distinct blocks: build once to learn it
				st := NewStore()
				probe := sh.fileCase("probe")
				root, _, err := buildFileCase(st, probe, makeContent("distinct", L, 0))
				if err != nil {
					return err
				}
				fw, err := walkFile(st, root)
				if err != nil {
					return err
				}
				nclasses := len(fw.cids) - 1
				if *what == "preload" {
					for m := 0; m <= nclasses; m++ {
						if m == 1 {
							continue // the root is given
						}
						fc := sh.fileCase(fmt.Sprintf("preload-%d-%d-%d-m%d", sh.n, sh.w, sh.last, m))
						fc.Open = "preload"
						fc.Mode = "seq"
						if m > 0 {
							fc.Missing = []int{m}
							fc.Mode = "fault"
						}
						fc.NotFound = m%2 == 0
						fc.Script = [][]any{{"asbytes"}}
						if err := runFileCase(fc, tr); err != nil {
							return err
						}
					}
					continue
				}
				for m := 2; m <= nclasses; m++ {
					for _, open := range []string{"direct", "reify"} {
						fc := sh.fileCase(fmt.Sprintf("fault-%d-%d-%d-m%d-%s", sh.n, sh.w, sh.last, m, open))
						fc.Open = open
						fc.Mode = "fault"
						fc.Missing = []int{m}
						fc.NotFound = m%3 == 0
						fc.Timeout = m%3 == 1
						if open == "direct" {
							// every class of missing block also with an I/O error that wraps io.EOF / io.ErrUnexpectedEOF
							fc.ErrKind = []string{"eofwrap", "unexpectedeof"}[m%2]
						}
						fc.Script = [][]any{{"asbytes"}, {"open", 1}, {"readall", 1, 1}, {"open", 2}, {"readall", 2, sh.k + 1},
							{"open", 3}, {"readall", 3, L + 7}, {"seek", 3, 0, 0}, {"readall", 3, 2},
							// the block comes back: every reader resumes exactly where the error left it
							{"heal"}, {"readall", 1, 1}, {"readall", 2, sh.k + 1}, {"readall", 3, 2}, {"asbytes"}}
						if err := runFileCase(fc, tr); err != nil {
							return err
						}
					}
				}
				// a reader that has streamed up to an unavailable leaf hops over it with a short forward seek: what lies
				// behind the gap is present and must be read correctly; the gap itself still errors, also when sought back
				for _, b := range fw.Blocks {
					if !b.Leaf || b.Lo == 0 || int(b.Hi) >= L || b.Hi == b.Lo {
						continue
					}
					fc := sh.fileCase(fmt.Sprintf("hop-%d-%d-%d-c%d", sh.n, sh.w, sh.last, b.C))
					fc.Mode = "fault"
					fc.Missing = []int{b.C}
					fc.NotFound = b.C%2 == 0
					fc.Script = [][]any{{"open", 1}, {"seek", 1, int(b.Lo) - 1, 0}, {"readall", 1, 1}, {"seek", 1, int(b.Hi), 0}, {"readall", 1, 2},
						{"seek", 1, int(b.Lo) - 1, 0}, {"readall", 1, 1}, {"seek", 1, int(b.Hi - b.Lo), 1}, {"readall", 1, 1},
						{"seek", 1, int(b.Lo), 0}, {"readall", 1, 1}, {"heal"}, {"readall", 1, 2}}
					if err := runFileCase(fc, tr); err != nil {
						return err
					}
					// the same hop when the gap's load fails only once (the k-th load of the run)
					for kth := 1; kth <= 5; kth++ {
						fc := sh.fileCase(fmt.Sprintf("hopfail-%d-%d-%d-c%d-k%d", sh.n, sh.w, sh.last, b.C, kth))
						fc.Mode = "fault"
						fc.FailAt = kth
						fc.NotFound = kth%2 == 1
						fc.Script = [][]any{{"open", 1}, {"seek", 1, int(b.Lo) - 1, 0}, {"readall", 1, 1}, {"seek", 1, int(b.Hi), 0}, {"readall", 1, 2},
							{"seek", 1, 0, 0}, {"readall", 1, L}}
						if err := runFileCase(fc, tr); err != nil {
							return err
						}
					}
				}
				// a transient failure of the k-th load issued while a reader positions itself inside a child
				for _, off := range uniq([]int{1, sh.k + 1, L - 2, sh.k*2 + 1}) {
					if off >= L {
						continue
					}
					for kth := 1; kth <= 4; kth++ {
						fc := sh.fileCase(fmt.Sprintf("seekfail-%d-%d-%d-o%d-k%d", sh.n, sh.w, sh.last, off, kth))
						fc.Mode = "fault"
						fc.FailAt = kth
						fc.NotFound = kth%2 == 0
						fc.Script = [][]any{{"open", 1}, {"seek", 1, off, 0}, {"readall", 1, sh.k + 1}, {"seek", 1, off, 0}, {"readall", 1, 2}}
						if err := runFileCase(fc, tr); err != nil {
							return err
						}
					}
				}
				// the k-th load fails, for every k of a cold sequential read
				for kth := 1; kth <= len(fw.Blocks)-1; kth++ {
					for _, nf := range []bool{false, true} {
						fc := sh.fileCase(fmt.Sprintf("failat-%d-%d-%d-k%d-%v", sh.n, sh.w, sh.last, kth, nf))
						fc.Mode = "fault"
						fc.FailAt = kth
						fc.NotFound = nf
						fc.Script = [][]any{{"open", 1}, {"readall", 1, sh.k + 1}, {"seek", 1, 0, 1}, {"readall", 1, 2}}
						if err := runFileCase(fc, tr); err != nil {
							return err
						}
					}
				}
			}
			if *what == "fault" {
				// interior nodes that cover more than 2 MiB each (400 chunks of 16 KiB under the default width: three
				// interior nodes of 174 / 174 / 52 leaves): with one of them unavailable a sequential read delivers exactly
				// the bytes before its span and then the error
				sh := shape{400, 174, 16384, 16384}
				st := NewStore()
				root, _, err := buildFileCase(st, sh.fileCase("probe"), makeContent("distinct", sh.length(), 0))
				if err != nil {
					return err
				}
				fw, err := walkFile(st, root)
				if err != nil {
					return err
				}
				for _, b := range fw.Blocks {
					if b.Leaf || b.C == 1 {
						continue
					}
					for _, open := range []string{"direct", "reify"} {
						fc := sh.fileCase(fmt.Sprintf("fault-big-400-m%d-%s", b.C, open))
						fc.Open, fc.Mode, fc.Missing, fc.NotFound = open, "fault", []int{b.C}, b.C%2 == 0
						fc.Script = [][]any{{"open", 1}, {"readall", 1, 1 << 20}, {"heal"}, {"readall", 1, 1 << 20}}
						if err := runFileCase(fc, tr); err != nil {
							return err
						}
					}
				}
			}
		case "writers":
			for _, wr := range boxoWriters {
				for _, sh := range shs {
					L := sh.length()
					for _, open := range []string{"direct", "reify", "preload"} {
						fc := sh.fileCase(fmt.Sprintf("writer-%s-%d-%d-%d-%s", wr, sh.n, sh.w, sh.last, open))
						fc.Writer = wr
						fc.Open = open
						fc.Mode = "writers"
						fc.Script = [][]any{{"asbytes"}, {"open", 1}, {"readall", 1, sh.k + 1}, {"seek", 1, 0, 2},
							{"open", 2}, {"readall", 2, L + 7}, {"open", 3}, {"readall", 3, 1}}
						// positioned reads: from every chunk boundary and one byte after it
						for a := 0; a < L; a += sh.k {
							fc.Script = append(fc.Script, []any{"seek", 2, a, 0}, []any{"read", 2, sh.k + 1}, []any{"seek", 3, a + 1, 0}, []any{"readall", 3, 2 * sh.k})
						}
						if err := runFileCase(fc, tr); err != nil {
							return err
						}
					}
				}
			}
		case "chunkers":
			// every chunker string form at its parameter boundaries (the largest permitted chunk is 1 MiB, inclusive), read back
			for i, ch := range []string{"size-1048576", "size-1048575", "size-262145", "default", "rabin-262144-524288-1048576", "buzhash"} {
				for _, content := range []string{"random", "repeat"} {
					fc := &FileCase{Fam: "file", ID: fmt.Sprintf("chunker-%s-%s", ch, content), Len: 5*(1<<19) + 5, Chunker: ch, W: []int{174, 2}[i%2],
						Content: content, Seed: int64(i + 1), Writer: "own", Open: []string{"direct", "reify", "preload"}[i%3], Mode: "random"}
					fc.Script = [][]any{{"asbytes"}, {"open", 1}, {"seek", 1, 0, 2}, {"seek", 1, 0, 0}, {"readall", 1, 1 << 16}, {"seek", 1, 1 << 20, 0}, {"read", 1, 9}}
					if err := runFileCase(fc, tr); err != nil {
						return fmt.Errorf("%s: %w", fc.ID, err)
					}
				}
			}
		case "random":
			r := rand.New(rand.NewSource(*seed))
			chunkers := []string{"size-%d", "rabin", "rabin-32-64-128", "buzhash", ""}
			for i := 0; i < *count; i++ {
				fc := &FileCase{Fam: "file", ID: fmt.Sprintf("random-%d-%d", *seed, i), Content: "random", Seed: r.Int63(),
					Writer: "own", Mode: "random"}
				ch := chunkers[r.Intn(len(chunkers))]
				switch ch {
				case "size-%d":
					cs := 1 + r.Intn(4096)
					fc.Chunker = fmt.Sprintf("size-%d", cs)
					// at most ~600 leaves: the block table is walked by TLC for every recorded event
					fc.Len = r.Intn(min(1<<17, cs*600) + 1)
				case "rabin-32-64-128":
					fc.Chunker = ch
					fc.Len = r.Intn(1 << 14)
				case "rabin", "buzhash":
					fc.Chunker = ch
					fc.Len = r.Intn(3 << 20)
				default:
					fc.Chunker = ""
					fc.Len = r.Intn(3 << 20)
				}
				fc.W = []int{2, 3, 4, 5, 6, 7, 8, 9, 174}[r.Intn(9)]
				if r.Intn(4) == 0 {
					fc.Content = "repeat"
				}
				if r.Intn(3) == 0 {
					fc.Writer = boxoWriters[r.Intn(len(boxoWriters))]
				}
				fc.Open = []string{"direct", "reify", "preload"}[r.Intn(3)]
				bs := 1 + r.Intn(1<<16)
				if fc.Len < 4096 {
					bs = 1 + r.Intn(64)
				}
				fc.Script = [][]any{{"asbytes"}, {"open", 1}, {"readall", 1, bs}, {"seek", 1, 0, 2}}
				// random seek/read history
				for j := 0; j < 12; j++ {
					if r.Intn(2) == 0 {
						wh := r.Intn(3)
						off := r.Intn(fc.Len+10) - 5
						if wh == 2 {
							off = -r.Intn(fc.Len+10) + 5
						}
						if wh == 1 {
							off = r.Intn(2001) - 1000
						}
						fc.Script = append(fc.Script, []any{"seek", 1 + r.Intn(2), off, wh})
					} else {
						fc.Script = append(fc.Script, []any{"read", 1 + r.Intn(2), r.Intn(bs + 1)})
					}
				}
				fc.Script = append([][]any{{"open", 2}}, fc.Script...)
				if err := runFileCase(fc, tr); err != nil {
					return fmt.Errorf("%s: %w", fc.ID, err)
				}
			}
		case "randhist":
			// long random Seek/Read histories over boundary offsets, several readers
			r := rand.New(rand.NewSource(*seed))
			for i := 0; i < *count; i++ {
				sh := shape{n: r.Intn(9), w: 2 + r.Intn(3), k: 1 + r.Intn(4)}
				sh.last = 1 + r.Intn(sh.k)
				fc := sh.fileCase(fmt.Sprintf("randhist-%d-%d", *seed, i))
				if r.Intn(3) == 0 {
					fc.Writer = boxoWriters[r.Intn(len(boxoWriters))]
				}
				fc.Open = []string{"direct", "reify", "preload"}[r.Intn(3)]
				fc.Mode = "hist"
				L := sh.length()
				offs := []int{-(L + 1), -L, -sh.k, -1, 0, 1, sh.k - 1, sh.k, sh.k + 1, L - 1, L, L + 1, L + sh.k, 2}
				ks := []int{0, 1, sh.k, sh.k + 1, L + 1, 2}
				nr := 1 + r.Intn(3)
				for q := 1; q <= nr; q++ {
					fc.Script = append(fc.Script, []any{"open", q})
				}
				for j := 0; j < 10+r.Intn(30); j++ {
					if r.Intn(5) < 2 {
						fc.Script = append(fc.Script, []any{"seek", 1 + r.Intn(nr), offs[r.Intn(len(offs))], r.Intn(3)})
					} else {
						fc.Script = append(fc.Script, []any{"read", 1 + r.Intn(nr), ks[r.Intn(len(ks))]})
					}
				}
				if err := runFileCase(fc, tr); err != nil {
					return fmt.Errorf("%s: %w", fc.ID, err)
				}
			}
		default:
			return fmt.Errorf("unknown -what %q", *what)
		}
		return nil
	}
}
