package main

import (
	"bytes"
	"context"
	"encoding/json"
	"flag"
	"fmt"
	"io"
	"runtime"
	"sync"
	"time"

	unixfsnode "github.com/ipfs/go-unixfsnode"
	"github.com/ipfs/go-unixfsnode/hamt"
	"github.com/ipld/go-ipld-prime"
	"github.com/ipld/go-ipld-prime/datamodel"
	cidlink "github.com/ipld/go-ipld-prime/linking/cid"
)

// ConcCase: several goroutines using one shared reified node (C17).  Built
// with -race, the process exits non-zero when the race detector fires; the
// recorded results are validated like sequential ones (TraceDir / TraceFile):
// the operations are read-only on an immutable DAG, so every call must return
// what it returns when run alone.
type ConcCase struct {
	Fam    string   `json:"fam"`
	ID     string   `json:"id"`
	What   string   `json:"what"`   // dir | file
	Fanout int      `json:"fanout"` // dir
	Warm   string   `json:"warm"`   // cold | halfwarm | warm
	Ops    []string `json:"ops"`    // one per goroutine: lookupX lookupX2 lookupY iterate length | read-<bufsize> asbytes seekread
	Reps   int      `json:"reps"`
	N, W   int      // file shape
	Yield  bool     `json:"yield"`
	MissZ  bool     `json:"missz"` // dir: the child shard holding names 5..8 is unavailable
}

// runConcBulk: a directory of cc.N entries (plain through the auto-selecting builder when Fanout is 0, else sharded)
// shared by G goroutines; each looks up every member and as many non-members, in its own rotation, on a node that
// is fresh (cold) for every repetition.  Compared here, reported as one summarised line per repetition.
// waitAll waits for the goroutines of one round; readers that never come back are a "hang" outcome of the
// round (the goroutines are abandoned), not a stuck check
func waitAll(wg *sync.WaitGroup, tr *Tr) bool {
	done := make(chan struct{})
	go func() { wg.Wait(); close(done) }()
	d := 20 * time.Second
	if hangSeen {
		d = 2 * time.Second
	}
	select {
	case <-done:
		return true
	case <-time.After(d):
		hangSeen = true
		tr.Emit(M{"ev": "crash", "e": "panic", "why": "concurrent readers never returned"})
		return false
	}
}

func runConcBulk(cc *ConcCase, tr *Tr) error {
	n := cc.N
	u := make([]string, 2*n)
	ids := make([]int, n)
	lk := make([]int, n)
	for i := range u {
		u[i] = fmt.Sprintf("bulk-entry-%04d.dat", i)
	}
	for i := 0; i < n; i++ {
		ids[i], lk[i] = i+1, (i+1)%nTargets
	}
	bld := "dir"
	if cc.Fanout > 0 {
		bld = "sharded"
	}
	st := NewStore()
	targets := putTargets(st)
	dc := &DirCase{Builder: bld, Fanout: cc.Fanout, Universe: u, Entries: ids, Links: lk}
	root, _, err := buildDir(st, dc, targets)
	if err != nil {
		return err
	}
	G := len(cc.Ops)
	for rep := 0; rep < cc.Reps; rep++ {
		tr.Emit(M{"ev": "reset", "case": caseString(cc)})
		ls := st.LinkSystem()
		rootNode, err := loadNode(ls, root)
		if err != nil {
			return err
		}
		node, err := unixfsnode.Reify(ipld.LinkContext{Ctx: context.Background()}, rootNode, ls)
		if err != nil {
			return err
		}
		if cc.Warm == "warm" {
			node.Length()
			node.LookupByString(u[2*n-1]) // a lookup of an absent name has happened before the goroutines start
		}
		wrongHit := make([]int, G)
		wrongMiss := make([]int, G)
		panics := make([]int, G)
		start := make(chan struct{})
		var wg sync.WaitGroup
		for g := 0; g < G; g++ {
			wg.Add(1)
			go func(g int) {
				defer wg.Done()
				<-start
				for j := 0; j < 2*n; j++ {
					i := (j + g*(2*n/G)) % (2 * n) // every goroutine starts somewhere else
					if g%2 == 1 {
						i = (i/2)%n + (i%2)*n // odd goroutines alternate members and non-members
					}
					if pm := guard(func() {
						nd, err := node.LookupByString(u[i])
						if i < n {
							var l datamodel.Link
							if err == nil {
								l, err = nd.AsLink()
							}
							if err != nil || !l.(cidlink.Link).Cid.Equals(targets[lk[i]]) {
								wrongHit[g]++
							}
						} else if err == nil {
							wrongMiss[g]++
						}
					}); pm != nil {
						panics[g]++
					}
				}
			}(g)
		}
		close(start)
		if !waitAll(&wg, tr) {
			return nil // the remaining rounds of this case would wait for the same readers
		}
		sum := func(xs []int) (t int) {
			for _, x := range xs {
				t += x
			}
			return
		}
		e := "nil"
		if sum(panics) > 0 {
			e = "panic"
		}
		tr.Emit(M{"ev": "big", "n": n, "builder": bld, "estimate": 0, "e": e, "sharded": bld == "sharded",
			"lookupOK": sum(wrongHit) == 0, "missOK": sum(wrongMiss) == 0, "iterOK": true, "lenOK": node.Length() == int64(n),
			"wrongHits": sum(wrongHit), "wrongMisses": sum(wrongMiss)})
	}
	return nil
}

type evbuf struct{ evs []M }

func (e *evbuf) add(m M) { e.evs = append(e.evs, m) }

func runConcDir(cc *ConcCase, tr *Tr) error {
	u := mineUniverse(cc.Fanout, "plain")
	// all six names: names 3,4 live under one child shard (X), 5,6 under another (Y), 1,2 under a third
	ids := []int{1, 2, 3, 4, 5, 6}
	lk := make([]int, len(ids))
	for i, id := range ids {
		lk[i] = id % nTargets
	}
	dc := &DirCase{Fam: "dir", ID: cc.ID, Builder: "sharded", Fanout: cc.Fanout, Universe: u, Entries: ids, Links: lk, Open: "reify", Mode: "conc"}
	st := NewStore()
	targets := putTargets(st)
	root, size, err := buildDir(st, dc, targets)
	if err != nil {
		return err
	}
	dw, err := walkDir(st, root, u)
	if err != nil {
		return err
	}
	entryC := []int{}
	for _, t := range targets {
		entryC = append(entryC, dw.addClass(t))
	}
	expect := [][]int{}
	for i, id := range ids {
		expect = append(expect, []int{id, dw.classOf(targets[lk[i]])})
	}
	lg := 0
	for 1<<uint(lg) < cc.Fanout {
		lg++
	}
	digits := [][]int{}
	for _, n := range u {
		digits = append(digits, digitsOf(n, lg))
	}
	// the first-level shard on the path of name 5 (it holds names 5..8)
	missClass := 0
	missing := []int{}
	if cc.MissZ {
		d5 := digits[4][0]
		for _, sl := range dw.Shards[0].Slots {
			if sl.B == d5 && sl.T == "shard" {
				missClass = sl.Link
			}
		}
		if missClass == 0 {
			return fmt.Errorf("conc: no child shard for name 5")
		}
		missing = []int{missClass}
	}
	for rep := 0; rep < cc.Reps; rep++ {
		st.missing = map[string]bool{}
		tr.Emit(M{"ev": "reset", "case": caseString(cc)})
		tr.Emit(M{"ev": "dir", "kind": dw.Kind, "F": dw.Fanout, "S": dw.Shards, "plain": []WPlain{}, "expect": expect,
			"digits": digits, "missing": missing, "entryC": entryC, "mode": "conc", "size": size, "builder": "sharded",
			"rootC": dw.classOf(root), "nuniv": len(u)})
		ls := st.LinkSystem() // no load logging: the read path must not synchronise the goroutines
		rootNode, err := loadNode(ls, root)
		if err != nil {
			return err
		}
		node, err := unixfsnode.Reify(ipld.LinkContext{Ctx: context.Background()}, rootNode, ls)
		if err != nil {
			return err
		}
		tr.Emit(M{"ev": "opennode", "how": "reify", "e": "nil", "kind": node.Kind().String(), "loads": []int{}, "failed": []int{}})
		if cc.MissZ {
			st.missing[key(dw.cids[missClass])] = true
		}
		switch cc.Warm {
		case "halfwarm":
			node.LookupByString(u[2])
		case "warm":
			node.Length()
		}
		bufs := make([]*evbuf, len(cc.Ops))
		start := make(chan struct{})
		var wg sync.WaitGroup
		for g, op := range cc.Ops {
			bufs[g] = &evbuf{}
			wg.Add(1)
			go func(g int, op string, eb *evbuf) {
				defer wg.Done()
				<-start
				concDirOp(node, op, u, dw, eb)
			}(g, op, bufs[g])
		}
		close(start)
		if !waitAll(&wg, tr) {
			return nil // the remaining rounds of this case would wait for the same readers
		}
		for _, eb := range bufs {
			for _, e := range eb.evs {
				tr.Emit(e)
			}
		}
	}
	return nil
}

func concDirOp(node ipld.Node, op string, u []string, dw *DirWalk, eb *evbuf) {
	lookup := func(id int) {
		var res string
		var link int
		if pm := guard(func() {
			n, err := node.LookupByString(u[id-1])
			res, link = lookupRes(n, err, dw)
		}); pm != nil {
			res = "panic"
		}
		eb.add(M{"ev": "lookup", "name": id, "how": "string", "res": res, "link": link, "e": res, "loads": []int{}, "failed": []int{}})
	}
	switch op {
	case "lookupX":
		lookup(3)
	case "lookupX2":
		lookup(4)
	case "lookupY":
		lookup(5)
	case "lookupMiss":
		lookup(6)
		lookup(1)
	case "lookupZ5":
		lookup(5)
	case "lookupZ6":
		lookup(6)
	case "lookupZ7":
		lookup(7)
	case "lookupZ8":
		lookup(8)
	case "length":
		var n int64
		res := "ok"
		if pm := guard(func() { n = node.Length() }); pm != nil {
			res = "panic"
		}
		eb.add(M{"ev": "length", "n": n, "res": res, "e": res, "loads": []int{}, "failed": []int{}})
	case "iterate":
		pairs := [][]int{}
		errs, steps := 0, 0
		res := "done"
		if pm := guard(func() {
			it := node.MapIterator()
			for !it.Done() {
				steps++
				if steps > 1000 {
					res = "budget"
					return
				}
				k, v, err := it.Next()
				if err != nil {
					errs++
					continue
				}
				ks, _ := k.AsString()
				l, _ := v.AsLink()
				pairs = append(pairs, []int{dw.nid(ks), dw.classOf(l.(cidlink.Link).Cid)})
			}
		}); pm != nil {
			res = "panic"
		}
		eb.add(M{"ev": "iter", "how": "map", "pairs": pairs, "errs": errs, "res": res, "e": res, "over": "err", "steps": steps,
			"loads": []int{}, "failed": []int{}})
	}
}

func runConcFile(cc *ConcCase, tr *Tr) error {
	sh := shape{cc.N, cc.W, 3, 2}
	fc := sh.fileCase(cc.ID)
	st := NewStore()
	content := makeContent("distinct", sh.length(), 0)
	root, size, err := buildFileCase(st, fc, content)
	if err != nil {
		return err
	}
	fw, err := walkFile(st, root)
	if err != nil {
		return err
	}
	for rep := 0; rep < cc.Reps; rep++ {
		tr.Emit(M{"ev": "reset", "case": caseString(cc)})
		tr.Emit(M{"ev": "dag", "B": fw.Blocks, "L": len(content), "size": size, "dagEq": bytes.Equal(fw.Content, content),
			"missing": []int{}, "mode": "conc", "cmode": "bytes", "content": ints(content)})
		ls := st.LinkSystem()
		rootNode, err := loadNode(ls, root)
		if err != nil {
			return err
		}
		node, err := unixfsnode.Reify(ipld.LinkContext{Ctx: context.Background()}, rootNode, ls)
		if err != nil {
			return err
		}
		tr.Emit(M{"ev": "opennode", "how": "reify", "e": "nil", "loads": []int{}, "failed": []int{}})
		bufs := make([]*evbuf, len(cc.Ops))
		start := make(chan struct{})
		var wg sync.WaitGroup
		for g, op := range cc.Ops {
			bufs[g] = &evbuf{}
			wg.Add(1)
			go func(g int, op string, eb *evbuf) {
				defer wg.Done()
				<-start
				concFileOp(node, g%4+1, op, content, eb) // the trace names four readers; each goroutine's events are emitted together, an open starts a reader afresh
			}(g, op, bufs[g])
		}
		close(start)
		if !waitAll(&wg, tr) {
			return nil // the remaining rounds of this case would wait for the same readers
		}
		for _, eb := range bufs {
			for _, e := range eb.evs {
				tr.Emit(e)
			}
		}
	}
	return nil
}

func concFileOp(node ipld.Node, r int, op string, content []byte, eb *evbuf) {
	if op == "asbytes" {
		var b []byte
		var err error
		if pm := guard(func() { b, err = node.AsBytes() }); pm != nil {
			err = pm
		}
		eb.add(M{"ev": "whole", "how": "asbytes", "n": len(b), "e": errClass(err), "data": ints(b), "eq": bytes.Equal(b, content),
			"loads": []int{}, "failed": []int{}})
		return
	}
	var rd io.ReadSeeker
	var err error
	if pm := guard(func() { rd, err = node.(datamodel.LargeBytesNode).AsLargeBytes() }); pm != nil {
		err = pm
	}
	eb.add(M{"ev": "open", "r": r, "e": errClass(err), "loads": []int{}, "failed": []int{}})
	if err != nil {
		return
	}
	var bs int
	fmt.Sscanf(op, "read-%d", &bs)
	if bs == 0 {
		bs = 2
	}
	read := func(k int) (int, error) {
		buf := make([]byte, k)
		var n int
		var err error
		if pm := guard(func() { n, err = rd.Read(buf) }); pm != nil {
			err = pm
		}
		eb.add(M{"ev": "read", "r": r, "k": k, "n": n, "e": errClass(err), "data": ints(buf[:n]), "eq": true, "loads": []int{}, "failed": []int{}})
		return n, err
	}
	seek := func(off int64, wh int) {
		var ret int64
		var err error
		if pm := guard(func() { ret, err = rd.Seek(off, wh) }); pm != nil {
			err = pm
		}
		eb.add(M{"ev": "seek", "r": r, "off": off, "wh": wh, "ret": ret, "e": errClass(err), "loads": []int{}, "failed": []int{}})
	}
	if op == "seekmany" {
		// many repositioned reads at pseudo-random places (per-goroutine sequence)
		x := uint32(r*2654435761 + 12345)
		for i := 0; i < 40; i++ {
			x = x*1664525 + 1013904223
			off := int64(x>>8) % int64(len(content))
			seek(off, io.SeekStart)
			read(1 + int(x>>4)%7)
		}
		return
	}
	if op == "seekread" {
		seek(-3, io.SeekEnd)
		read(5)
		seek(1, io.SeekStart)
		read(4)
		seek(0, io.SeekEnd)
		read(1)
		return
	}
	for i := 0; i < 10*len(content)+10; i++ {
		if _, err := read(bs); err != nil {
			break
		}
	}
	seek(0, io.SeekEnd)
}

func init() {
	caseRunners["conc"] = func(b []byte, tr *Tr) error {
		var cc ConcCase
		if err := json.Unmarshal(b, &cc); err != nil {
			return err
		}
		if cc.Yield {
			hamt.VerifYield = func(string) { runtime.Gosched() }
		}
		if cc.What == "file" {
			return runConcFile(&cc, tr)
		}
		if cc.What == "bulk" {
			return runConcBulk(&cc, tr)
		}
		return runConcDir(&cc, tr)
	}
	cmds["conc-gen"] = func(args []string) error {
		fs := flag.NewFlagSet("conc-gen", flag.ExitOnError)
		reps := fs.Int("reps", 20, "repetitions per scenario")
		goroutines := fs.Int("g", 2, "goroutines for the exhaustive op assignment")
		extra := fs.Int("extra", 8, "goroutines of the heavy mixed scenario")
		what := fs.String("what", "dir", "dir|file")
		out := fs.String("out", "", "trace output")
		fs.Parse(args)
		tr, err := NewTr(*out)
		if err != nil {
			return err
		}
		defer tr.Close()
		hamt.VerifYield = func(string) { runtime.Gosched() }
		kinds := []string{"lookupX", "lookupX2", "lookupY", "iterate", "length"}
		var assign func(cur []string)
		var all [][]string
		assign = func(cur []string) {
			if len(cur) == *goroutines {
				all = append(all, append([]string(nil), cur...))
				return
			}
			for _, k := range kinds {
				assign(append(cur, k))
			}
		}
		assign(nil)
		if *what == "file" {
			all = nil
		}
		if *what == "missz" {
			all = nil // only the scenarios in which several goroutines reach one unavailable shard (C12)
		}
		for _, warm := range []string{"cold", "halfwarm", "warm"} {
			for _, ops := range all {
				for _, f := range []int{8, 256} {
					cc := &ConcCase{Fam: "conc", ID: fmt.Sprintf("conc-dir-%d-%s-%v", f, warm, ops), What: "dir", Fanout: f, Warm: warm, Ops: ops,
						Reps: *reps, Yield: true}
					if err := runConcDir(cc, tr); err != nil {
						return err
					}
				}
			}
		}
		// heavy mixed scenario: many goroutines, every kind of operation
		var mixed []string
		for i := 0; i < *extra; i++ {
			mixed = append(mixed, append(kinds, "lookupMiss")[i%6])
		}
		for _, warm := range []string{"cold", "halfwarm"} {
			if *what == "file" || *what == "missz" {
				break
			}
			cc := &ConcCase{Fam: "conc", ID: fmt.Sprintf("conc-dir-mixed-%s", warm), What: "dir", Fanout: 8, Warm: warm, Ops: mixed, Reps: *reps * 3, Yield: true}
			if err := runConcDir(cc, tr); err != nil {
				return err
			}
		}
		// every goroutine does the same thing at once (eight lengths, eight iterations, eight lookups of one name)
		for _, k := range kinds {
			if *what == "file" || *what == "missz" {
				break
			}
			for _, warm := range []string{"cold", "halfwarm"} {
				same := []string{k, k, k, k, k, k, k, k}
				cc := &ConcCase{Fam: "conc", ID: fmt.Sprintf("conc-dir-same-%s-%s", k, warm), What: "dir", Fanout: 8, Warm: warm, Ops: same, Reps: *reps, Yield: true}
				if err := runConcDir(cc, tr); err != nil {
					return err
				}
			}
		}
		// a child shard is unavailable and several goroutines reach it at once: every one of them must get the load error
		for _, warm := range []string{"cold", "halfwarm"} {
			if *what == "file" {
				break
			}
			cc := &ConcCase{Fam: "conc", ID: fmt.Sprintf("conc-dir-missz-%s", warm), What: "dir", Fanout: 8, Warm: warm,
				Ops: []string{"lookupZ5", "lookupZ6", "lookupZ7", "lookupZ8", "lookupX", "iterate", "lookupZ5", "lookupZ6"}, Reps: *reps * 2, Yield: true, MissZ: true}
			if err := runConcDir(cc, tr); err != nil {
				return err
			}
		}
		// many goroutines looking up members and non-members of larger directories (plain with 48 and 300 entries,
		// sharded with 300 and 1500 entries), cold and after a first lookup of an absent name
		if *what == "missz" {
			return nil
		}
		if *what != "file" {
			for _, nf := range [][2]int{{48, 0}, {300, 0}, {300, 16}, {1500, 256}} {
				for _, warm := range []string{"cold", "warm"} {
					cc := &ConcCase{Fam: "conc", ID: fmt.Sprintf("conc-bulk-%d-%d-%s", nf[0], nf[1], warm), What: "bulk", N: nf[0], Fanout: nf[1], Warm: warm,
						Ops: make([]string, 8), Reps: *reps, Yield: true}
					if err := runConcBulk(cc, tr); err != nil {
						return err
					}
				}
			}
		}
		// files: separate readers and AsBytes on one shared multi-block node
		if *what != "file" {
			return nil
		}
		// many readers at once (more than any small pool of slots a reader might draw from)
		many := make([]string, 48)
		for i := range many {
			many[i] = []string{"read-3", "asbytes", "read-100", "seekread"}[i%4]
		}
		for _, ops := range [][]string{{"read-1", "read-2"}, {"read-3", "asbytes"}, {"read-100", "seekread", "read-4"}, {"asbytes", "asbytes", "seekread", "read-2"},
			{"seekmany", "seekmany", "seekmany", "seekmany"}, many} {
			for _, nw := range [][2]int{{5, 2}, {9, 3}} {
				cc := &ConcCase{Fam: "conc", ID: fmt.Sprintf("conc-file-%d-%d-%v", nw[0], nw[1], ops), What: "file", N: nw[0], W: nw[1], Ops: ops, Reps: *reps}
				if err := runConcFile(cc, tr); err != nil {
					return err
				}
			}
		}
		return nil
	}
}
