package main

// Replay of TLC-generated schedules (spec/HamtSched.tla) on a real shared sharded-directory node.
//
// The library calls hamt.VerifYield at the two places where a reader has decided to update the node's memoised
// state but has not done so yet ("loadChild", "length").  Here the hook BLOCKS: a reader that reaches it parks and
// tells the scheduler, which releases one reader at a time in the order the schedule prescribes.  Between two hook
// calls a reader waits for nobody, so the real readers execute exactly the sequence of segments of the TLC
// behaviour; the blocks each segment loads, where it stopped and what the reader finally answered are recorded and
// validated against spec/HamtSchedOps.tla by spec/TraceSched.tla.
//
// The scheduler never assumes the library behaves as modelled: a reader that blocks without reaching a hook (it
// waits for another reader) is noted and the schedule goes on; a schedule entry for a reader that has already
// finished is skipped; what is left parked at the end is released in turn; readers that never return are an outcome.

import (
	"bytes"
	"context"
	"encoding/json"
	"flag"
	"fmt"
	"runtime"
	"strconv"
	"sync"
	"time"

	"github.com/ipfs/go-cid"
	"github.com/ipfs/go-unixfsnode"
	"github.com/ipfs/go-unixfsnode/hamt"
	"github.com/ipld/go-ipld-prime"
	cidlink "github.com/ipld/go-ipld-prime/linking/cid"
)

type SOp struct {
	O string `json:"o"` // lookup | iterate | length
	N int    `json:"n"` // lookup: name id
}

// SchedCfg: one stored directory and the operation alphabet explored on it.
type SchedCfg struct {
	Name    string
	Fanout  int
	Entries []int
	Ops     []SOp
	Warms   [][]int // alternatives; each a sequence of 1-based indices into Ops, run alone before the readers start
}

// at fanout 8 the mined universe gives: names 1,2 in one first-level shard; 3,4 two shards deep; 5,6 three deep;
// 7 in the first-level shard of 5; 8 in its second-level shard; 9 absent
var schedCfgs = map[string]SchedCfg{
	// root, A{1,2}, B, B'{3,4}
	"small": {Name: "small", Fanout: 8, Entries: []int{1, 2, 3, 4},
		Ops:   []SOp{{"lookup", 1}, {"lookup", 3}, {"lookup", 4}, {"lookup", 9}, {"iterate", 0}, {"length", 0}},
		Warms: [][]int{{}, {2}, {6}}},
	// + C, C', C''{5,6} with 8 hanging off C'
	// (7 is left out: looking it up goes one shard down and finds nothing)
	"nested": {Name: "nested", Fanout: 8, Entries: []int{1, 2, 3, 4, 5, 6, 8},
		Ops:   []SOp{{"lookup", 3}, {"lookup", 5}, {"lookup", 6}, {"lookup", 7}, {"lookup", 8}, {"iterate", 0}, {"length", 0}},
		Warms: [][]int{{}, {2}, {4, 1}}},
	// the same directory without the count (whose seven nested memo stores make the schedules of two counts alone run
	// into the tens of millions): every schedule of lookups and iterations can be enumerated
	"nested-nolen": {Name: "nested-nolen", Fanout: 8, Entries: []int{1, 2, 3, 4, 5, 6, 8},
		Ops:   []SOp{{"lookup", 3}, {"lookup", 5}, {"lookup", 6}, {"lookup", 7}, {"lookup", 8}, {"iterate", 0}},
		Warms: [][]int{{}, {2}, {4, 1}}},
	// a wide HAMT: the same structure at fanout 256 (fewer levels, wider shards)
	"wide": {Name: "wide", Fanout: 256, Entries: []int{1, 2, 3, 4, 5, 6},
		Ops:   []SOp{{"lookup", 1}, {"lookup", 3}, {"lookup", 5}, {"lookup", 9}, {"iterate", 0}, {"length", 0}},
		Warms: [][]int{{}, {3}, {6}}},
	"wide-nolen": {Name: "wide-nolen", Fanout: 256, Entries: []int{1, 2, 3, 4, 5, 6},
		Ops:   []SOp{{"lookup", 1}, {"lookup", 3}, {"lookup", 5}, {"lookup", 9}, {"iterate", 0}},
		Warms: [][]int{{}, {3}, {2, 1}}},
}

// SchedCase: one behaviour exported by TLC.
type SchedCase struct {
	Fam   string `json:"fam"`
	ID    string `json:"id"`
	Cfg   string `json:"cfg"`
	Ops   []SOp  `json:"ops"`   // one per reader
	Warm  []SOp  `json:"warm"`  // run alone first
	Miss  []int  `json:"miss"`  // block classes that cannot be loaded
	LG    bool   `json:"lg"`    // the readers also park inside every load (a gate in the harness's block store)
	Sched []int  `json:"sched"` // the readers released, in order (1-based)
}

type schedDir struct {
	cfg     SchedCfg
	st      *Store
	root    cidlink.Link
	u       []string
	dw      *DirWalk
	digits  [][]int
	expect  [][]int
	entryC  []int
	size    uint64
	targets int
}

var schedDirs = map[string]*schedDir{}

func getSchedDir(name string) (*schedDir, error) {
	if d, ok := schedDirs[name]; ok {
		return d, nil
	}
	cfg, ok := schedCfgs[name]
	if !ok {
		return nil, fmt.Errorf("sched: unknown configuration %q", name)
	}
	u := mineUniverse(cfg.Fanout, "plain")
	lk := make([]int, len(cfg.Entries))
	for i, id := range cfg.Entries {
		lk[i] = id % nTargets
	}
	dc := &DirCase{Fam: "dir", ID: "sched-" + name, Builder: "sharded", Fanout: cfg.Fanout, Universe: u, Entries: cfg.Entries, Links: lk, Open: "reify"}
	st := NewStore()
	targets := putTargets(st)
	root, size, err := buildDir(st, dc, targets)
	if err != nil {
		return nil, err
	}
	dw, err := walkDir(st, root, u)
	if err != nil {
		return nil, err
	}
	d := &schedDir{cfg: cfg, st: st, root: cidlink.Link{Cid: root}, u: u, dw: dw, size: size}
	for _, t := range targets {
		d.entryC = append(d.entryC, dw.addClass(t))
	}
	for i, id := range cfg.Entries {
		d.expect = append(d.expect, []int{id, dw.classOf(targets[lk[i]])})
	}
	lg := 0
	for 1<<uint(lg) < cfg.Fanout {
		lg++
	}
	for _, n := range u {
		d.digits = append(d.digits, digitsOf(n, lg))
	}
	schedDirs[name] = d
	return d, nil
}

// goid: the running goroutine's id (the hook is a plain function variable; this is how it knows its caller)
func goid() int64 {
	var b [64]byte
	n := runtime.Stack(b[:], false)
	f := bytes.Fields(b[:n])
	if len(f) < 2 {
		return -1
	}
	id, _ := strconv.ParseInt(string(f[1]), 10, 64)
	return id
}

type schedEv struct {
	g  int
	at string
}

type scheduler struct {
	mu     sync.Mutex
	ids    map[int64]int
	resume []chan struct{}
	events chan schedEv
}

func (s *scheduler) hook(point string) {
	s.mu.Lock()
	g, ok := s.ids[goid()]
	s.mu.Unlock()
	if !ok {
		return // not one of the scheduled readers (the warm-up runs with the hook in place)
	}
	s.events <- schedEv{g, point}
	<-s.resume[g]
}

// how long a released reader may take before it is taken to wait for another reader, and how long readers that
// only wait are given at the end: generous until the library has shown that its readers do wait for each other
// (the unchanged library's never do: nothing here is ever waited out), short afterwards; after fifty behaviours
// with readers that never returned the remaining ones are not replayed (the verdict is in)
var (
	schedPatience = 10 * time.Second
	schedLinger   = 10 * time.Second
	schedHangs    = 0
)

func runSchedCase(sc *SchedCase, tr *Tr) error {
	if schedHangs >= 50 {
		return nil
	}
	d, err := getSchedDir(sc.Cfg)
	if err != nil {
		return err
	}
	dw, st := d.dw, d.st
	tr.Emit(M{"ev": "reset", "case": caseString(sc)})
	tr.Emit(M{"ev": "sdir", "S": dw.Shards, "digits": d.digits, "expect": d.expect, "n": len(d.cfg.Entries), "F": dw.Fanout, "e": "nil"})
	st.parallel, st.logLoads = true, true
	st.mu.Lock()
	st.ResetLog()
	st.missing = map[string]bool{}
	for _, c := range sc.Miss {
		if c < 1 || c >= len(dw.cids) {
			st.mu.Unlock()
			return fmt.Errorf("sched: no block class %d", c)
		}
		st.missing[key(dw.cids[c])] = true
	}
	st.mu.Unlock()
	defer func() { st.missing = map[string]bool{} }()
	ls := st.LinkSystem()
	rootNode, err := loadNode(ls, d.root.Cid)
	if err != nil {
		return err
	}
	node, err := unixfsnode.Reify(ipld.LinkContext{Ctx: context.Background()}, rootNode, ls)
	if err != nil {
		return err
	}
	takeLoads := func() []int {
		st.mu.Lock()
		loads, _ := st.TakeLoads()
		st.mu.Unlock()
		out := []int{}
		for _, c := range loads {
			out = append(out, dw.classOf(c))
		}
		return out
	}
	takeLoads() // the root
	G := len(sc.Ops)
	s := &scheduler{ids: map[int64]int{}, resume: make([]chan struct{}, G+1), events: make(chan schedEv, 4*G+4)}
	hamt.VerifYield = s.hook
	defer func() { hamt.VerifYield = nil }()
	if sc.LG {
		st.onLoad = func(cid.Cid) { s.hook("load") }
		defer func() { st.onLoad = nil }()
	}
	// what one operation answers, in the vocabulary of the trace
	doOp := func(op SOp) M {
		res := M{"o": op.O, "name": op.N, "res": "none", "link": 0, "pairs": [][]int{}, "n": -1, "errs": 0}
		if pm := guard(func() {
			switch op.O {
			case "lookup":
				n, err := node.LookupByString(d.u[op.N-1])
				res["res"], res["link"] = lookupRes(n, err, dw)
			case "length":
				res["n"] = node.Length()
				res["res"] = "ok"
			case "iterate":
				pairs := [][]int{}
				errs := 0
				it := node.MapIterator()
				for steps := 0; !it.Done() && steps < 10000; steps++ {
					k, v, err := it.Next()
					if err != nil {
						errs++
						continue
					}
					ks, _ := k.AsString()
					l, _ := v.AsLink()
					pairs = append(pairs, []int{dw.nid(ks), dw.classOf(l.(cidlink.Link).Cid)})
				}
				res["pairs"], res["errs"], res["res"] = pairs, errs, "ok"
			}
		}); pm != nil {
			res["res"] = "panic"
		}
		return res
	}
	for _, w := range sc.Warm {
		doOp(w) // alone, to its end: the hook lets unregistered goroutines through
	}
	miss := sc.Miss
	if miss == nil {
		miss = []int{}
	}
	tr.Emit(M{"ev": "sstart", "ops": sc.Ops, "warm": sc.Warm, "miss": miss, "lg": sc.LG, "wloads": takeLoads(), "e": "nil"})
	results := make([]M, G+1)
	for g := 1; g <= G; g++ {
		s.resume[g] = make(chan struct{}, 1)
		ready := make(chan struct{})
		go func(g int) {
			s.mu.Lock()
			s.ids[goid()] = g
			s.mu.Unlock()
			close(ready)
			<-s.resume[g]
			results[g] = doOp(sc.Ops[g-1])
			s.events <- schedEv{g, "done"}
		}(g)
		<-ready
	}
	state := make([]string, G+1) // parked | running | blocked | done
	for g := 1; g <= G; g++ {
		state[g] = "parked"
	}
	note := func(ev schedEv) {
		if ev.at == "done" {
			state[ev.g] = "done"
		} else {
			state[ev.g] = "parked"
		}
	}
	// release reader g and wait until it parks, ends or turns out to be waiting for somebody else
	release := func(g int) M {
		state[g] = "running"
		s.resume[g] <- struct{}{}
		at := "blocked"
		timer := time.NewTimer(schedPatience)
		defer timer.Stop()
	wait:
		for {
			select {
			case ev := <-s.events:
				note(ev)
				if ev.g == g {
					at = ev.at
					break wait
				}
			case <-timer.C:
				state[g] = "blocked"
				schedPatience = 20 * time.Millisecond
				break wait
			}
		}
		seg := M{"ev": "seg", "g": g, "at": at, "loads": takeLoads(), "e": "nil", "r": M{}}
		if at == "done" {
			seg["r"] = results[g]
			if results[g]["res"] == "panic" {
				seg["e"] = "panic"
			}
		}
		return seg
	}
	for _, g := range sc.Sched {
		if g < 1 || g > G {
			return fmt.Errorf("sched: reader %d out of range", g)
		}
		if state[g] != "parked" {
			tr.Emit(M{"ev": "seg", "g": g, "at": "skipped", "loads": []int{}, "e": "nil", "r": M{}})
			continue
		}
		tr.Emit(release(g))
	}
	// whatever the schedule left: release parked readers in turn, wait for blocked ones that wake up
	for rounds := 0; rounds < 1000; rounds++ {
		progressed := false
		for g := 1; g <= G; g++ {
			if state[g] == "parked" {
				ev := release(g)
				ev["extra"] = true
				tr.Emit(ev)
				progressed = true
			}
		}
		alldone := true
		for g := 1; g <= G; g++ {
			alldone = alldone && state[g] == "done"
		}
		if alldone {
			break
		}
		if !progressed {
			// only blocked readers are left: give them a moment to wake up
			select {
			case ev := <-s.events:
				note(ev)
				if ev.at == "done" {
					r := results[ev.g]
					tr.Emit(M{"ev": "seg", "g": ev.g, "at": "done", "loads": takeLoads(), "e": map[bool]string{true: "panic", false: "nil"}[r["res"] == "panic"], "r": r, "extra": true})
				}
			case <-time.After(schedLinger):
				rounds = 1000
			}
		}
	}
	hung := []int{}
	for g := 1; g <= G; g++ {
		if state[g] != "done" {
			hung = append(hung, g)
		}
	}
	// readers that never returned stay parked for good: let the hook wave them through so they do not pile up
	if len(hung) > 0 {
		schedHangs++
		if schedHangs >= 3 {
			schedLinger = 100 * time.Millisecond
		}
		hamt.VerifYield = nil
		st.onLoad = nil
		for _, g := range hung {
			select {
			case s.resume[g] <- struct{}{}:
			default:
			}
		}
	}
	tr.Emit(M{"ev": "send", "hung": hung, "e": map[bool]string{true: "nil", false: "panic"}[len(hung) == 0]})
	st.parallel, st.logLoads = false, false
	return nil
}

func init() {
	caseRunners["sched"] = func(b []byte, tr *Tr) error {
		var sc SchedCase
		if err := json.Unmarshal(b, &sc); err != nil {
			return err
		}
		return runSchedCase(&sc, tr)
	}
	// sched-table: the shard table of a configuration's stored directory, for spec/HamtSched.tla to explore
	cmds["sched-table"] = func(args []string) error {
		fs := flag.NewFlagSet("sched-table", flag.ExitOnError)
		cfg := fs.String("cfg", "small", "configuration")
		out := fs.String("out", "", "output (one JSON line)")
		fs.Parse(args)
		d, err := getSchedDir(*cfg)
		if err != nil {
			return err
		}
		tr, err := NewTr(*out)
		if err != nil {
			return err
		}
		defer tr.Close()
		// the alternatives for the unavailable blocks: none; the deepest shard; the last first-level shard
		deepest, depthOf, lastFirst := 0, map[int]int{1: 0}, 0
		for i, sh := range d.dw.Shards {
			if i == 0 {
				continue
			}
			depthOf[i+1] = depthOf[sh.Parent] + 1
			if deepest == 0 || depthOf[i+1] > depthOf[deepest] {
				deepest = i + 1
			}
			if sh.Parent == 1 {
				lastFirst = i + 1
			}
		}
		misses := [][]int{{}}
		if deepest > 0 {
			misses = append(misses, []int{d.dw.Shards[deepest-1].C})
		}
		if lastFirst > 0 && lastFirst != deepest {
			misses = append(misses, []int{d.dw.Shards[lastFirst-1].C})
		}
		tr.Emit(M{"S": d.dw.Shards, "digits": d.digits, "ops": d.cfg.Ops, "warms": d.cfg.Warms, "misses": misses, "cfg": d.cfg.Name})
		return nil
	}
}
