package main

import (
	"bytes"
	"encoding/json"
	"errors"
	"flag"
	"fmt"
	quickbuilder "github.com/ipfs/go-unixfsnode/data/builder/quick"
	"io"
	"math/rand"
	"os"
	"path/filepath"
	"sync"
	"syscall"

	chunk "github.com/ipfs/boxo/chunker"
	pb "github.com/ipfs/boxo/ipld/unixfs/pb"
	"github.com/ipfs/go-cid"
	"github.com/ipfs/go-unixfsnode/data/builder"
	"github.com/ipld/go-ipld-prime"
	cidlink "github.com/ipld/go-ipld-prime/linking/cid"
)

// TreeSpec describes an on-disk tree for the recursive importer.
type TreeSpec struct {
	Name     string      `json:"name"`
	Kind     string      `json:"kind"` // file | dir | symlink | fifo
	Size     int         `json:"size"`
	Seed     int64       `json:"seed"`
	Target   string      `json:"target"`
	Children []*TreeSpec `json:"children"`
}

func (t *TreeSpec) materialize(dir string) error {
	p := filepath.Join(dir, t.Name)
	switch t.Kind {
	case "file":
		return os.WriteFile(p, makeContent("random", t.Size, t.Seed), 0o644)
	case "dir":
		if err := os.Mkdir(p, 0o755); err != nil {
			return err
		}
		for _, c := range t.Children {
			if err := c.materialize(p); err != nil {
				return err
			}
		}
		return nil
	case "symlink":
		return os.Symlink(t.Target, p)
	case "fifo":
		return syscall.Mkfifo(p, 0o644)
	}
	return fmt.Errorf("unknown tree kind %q", t.Kind)
}

// BuildCase is one logical input built in several variants.
type BuildCase struct {
	Fam  string `json:"fam"`
	ID   string `json:"id"`
	What string `json:"what"` // file | symlink | dir | sharded | quickdir | quickfile | recursive
	// file
	Len     int    `json:"len"`
	Chunker string `json:"chunker"`
	W       int    `json:"w"`
	Content string `json:"content"`
	Seed    int64  `json:"seed"`
	// directories
	Fanout   int      `json:"fanout"`
	Universe []string `json:"universe"`
	Entries  []int    `json:"entries"`
	// symlink
	Target string `json:"target"`
	// recursive
	Tree *TreeSpec `json:"tree"`
	// variants
	Orders      [][]int `json:"orders"`      // permutations of Entries
	Frags       [][]int `json:"frags"`       // fragment-size cycles for the source reader
	Repeat      int     `json:"repeat"`      // repeat the plain build this many extra times
	Faults      bool    `json:"faults"`      // inject every single write-open / commit failure
	Ref         bool    `json:"ref"`         // compare with the reference importer / HAMT
	MixV0       bool    `json:"mixv0"`       // directories: mixed CIDv0 / CIDv1 entry links
	FaultSample int     `json:"faultsample"` // with Faults: inject only at this many evenly spread positions (0 = every position)
	Hasher      uint64  `json:"hasher"`      // sharded directories: name hasher (0 = murmur3)
	SizeBase    int64   `json:"sizebase"`    // directories: entries are declared with cumulative sizes SizeBase+id (sizes beyond 32 bits)
	// files, beyond the listed properties: the source reader fails (a non-EOF error) after k bytes, for every k in
	// ReadFailAt, or for every k in 0..Len when ReadFaults is set
	ReadFaults bool  `json:"readfaults"`
	ReadFailAt []int `json:"readfailat"`
}

// failingReader delivers the first `left` bytes of r and then a non-EOF error (also in place of the final EOF).
type failingReader struct {
	r    io.Reader
	left int
}

var errInjectedRead = errors.New("injected source read failure")

func (f *failingReader) Read(p []byte) (int, error) {
	if f.left <= 0 {
		return 0, errInjectedRead
	}
	if len(p) > f.left {
		p = p[:f.left]
	}
	n, err := f.r.Read(p)
	f.left -= n
	if err == io.EOF {
		err = errInjectedRead
	}
	return n, err
}

type fragReader struct {
	b     []byte
	sizes []int
	i     int
	// eofWithData: the last fragment is returned together with io.EOF (io.Reader allows both styles)
	eofWithData bool
}

func (f *fragReader) Read(p []byte) (int, error) {
	if len(f.b) == 0 {
		return 0, io.EOF
	}
	n := f.sizes[f.i%len(f.sizes)]
	f.i++
	if n <= 0 {
		n = 1
	}
	if n > len(p) {
		n = len(p)
	}
	if n > len(f.b) {
		n = len(f.b)
	}
	copy(p, f.b[:n])
	f.b = f.b[n:]
	if f.eofWithData && len(f.b) == 0 {
		return n, io.EOF
	}
	return n, nil
}

type caseClasses struct {
	m    map[string]int
	cids []cid.Cid
}

func (cc *caseClasses) classOf(c cid.Cid) int {
	if !c.Defined() {
		return 0
	}
	if n, ok := cc.m[key(c)]; ok {
		return n
	}
	cc.cids = append(cc.cids, c)
	cc.m[key(c)] = len(cc.cids)
	return len(cc.cids)
}

func parseCommit(cc *caseClasses, ce CommitEv) M {
	m := M{"c": cc.classOf(ce.Cid), "len": ce.Len, "links": []M{}, "fsize": -1, "bsizes": []int64{}, "bytes": 0, "isfile": false}
	if ce.Cid.Prefix().Codec == cid.Raw {
		m["bytes"] = ce.Len
		m["isfile"] = true
		return m
	}
	pn, d, err := decodePB(ce.Cid, ce.Bytes)
	if pn == nil {
		m["bad"] = fmt.Sprint(err)
		return m
	}
	links := []M{}
	for _, l := range pn.Links() {
		links = append(links, M{"c": cc.classOf(l.Cid), "tsize": int64(l.Size)})
	}
	m["links"] = links
	if d != nil {
		if t := d.GetType(); t == pb.Data_File || t == pb.Data_Raw {
			m["isfile"] = true
			m["bytes"] = len(d.Data)
		}
		if d.Filesize != nil {
			m["fsize"] = int64(d.GetFilesize())
		}
		bs := []int64{}
		for _, x := range d.Blocksizes {
			bs = append(bs, int64(x))
		}
		m["bsizes"] = bs
	}
	return m
}

func shapeOf(fw *FileWalk) []int {
	ar := make([]int, len(fw.Blocks))
	for _, b := range fw.Blocks {
		if b.Parent > 0 {
			ar[b.Parent-1]++
		}
	}
	return ar
}

func countChunks(content []byte, chunker string) int {
	spl, err := chunk.FromString(bytes.NewReader(content), chunker)
	if err != nil {
		return -1
	}
	n := 0
	for {
		_, err := spl.NextBytes()
		if err != nil {
			break
		}
		n++
	}
	return n
}

type buildVariant struct {
	input       int
	order       []int
	frag        []int
	failOpen    int
	failCommit  int
	tag         string
	eofWithData bool
	readFail    int    // k+1: the source reader fails after k bytes (0 = never)
	pre         int    // files: the source is a seekable reader whose first bytes the caller has already consumed (1 = bytes.Reader, 2 = *os.File)
	altRoot     int    // recursive: 1 = the same tree materialised under another (deeper) directory, 2 = the root given as a relative path
	werr        string // kind of the injected write error ("" = a plain I/O error, "eof" = io.EOF itself, "eofwrap")
	// reuse: the build does not start from scratch -
	//   st != nil             into a store that already holds blocks (of an earlier build of the same input)
	//   ls != nil             through a LinkSystem object an earlier build used
	//   ls != nil && swap     ... whose storage has meanwhile been pointed at another (fresh) store
	st   *Store
	ls   *ipld.LinkSystem
	swap bool
}

// oneBuild runs a single build variant on a fresh store.
// buildDecoys: unrelated builds into scratch stores (their results are not looked at)
func buildDecoys(bc *BuildCase) {
	guard(func() {
		u := mineUniverse(8, "plain")
		for _, f := range []int{1024, 256, 16} {
			dst := NewStore()
			tg := putTargets(dst)
			ids := []int{1, 2, 3, 4, 5, 6, 7, 8}
			lk := make([]int, len(ids))
			for i, id := range ids {
				lk[i] = id % nTargets
			}
			buildDir(dst, &DirCase{Builder: "sharded", Fanout: f, Universe: u, Entries: ids, Links: lk}, tg)
		}
		n := bc.Len
		if n <= 0 || n > 1<<21 {
			n = 4099
		}
		for _, ch := range []string{"size-1000", "", "size-4096"} {
			dst := NewStore()
			builder.BuildUnixFSFile(bytes.NewReader(makeContent("random", n, 99)), ch, dst.LinkSystem())
		}
	})
}

func oneBuild(bc *BuildCase, v buildVariant, cc *caseClasses, content []byte, treeDir string) (M, *Store, cid.Cid) {
	st := v.st
	if st == nil || v.swap {
		st = NewStore()
	}
	var targets []cid.Cid
	if st.parallel {
		targets = st.targets // prepared by the caller; nothing of the shared store is configured from inside a builder goroutine
	} else {
		targets = putTargets(st)
		st.logWrites = true
		st.failOpenAt = v.failOpen
		st.failCommitAt = v.failCommit
		st.writeErrKind = v.werr
	}
	ls := v.ls
	if ls == nil {
		ls = st.LinkSystem()
	} else if v.swap {
		fresh := st.LinkSystem()
		ls.StorageWriteOpener, ls.StorageReadOpener = fresh.StorageWriteOpener, fresh.StorageReadOpener
	}
	if st.parallel {
		st.mu.Lock()
	}
	st.lastLS = ls
	c0, w0, o0 := len(st.commits), len(st.wevents), st.opens
	if st.parallel {
		st.mu.Unlock()
	}
	var lnk ipld.Link
	var size uint64
	var err error
	ext := []M{}
	for _, t := range targets {
		b, _ := st.Get(t)
		ext = append(ext, M{"c": cc.classOf(t), "tsize": len(b)})
	}
	pm := guard(func() {
		switch bc.What {
		case "file":
			builder.DefaultLinksPerBlock = bc.W
			var r io.Reader = bytes.NewReader(content)
			if v.frag != nil {
				r = &fragReader{b: append([]byte(nil), content...), sizes: v.frag, eofWithData: v.eofWithData}
			}
			if v.readFail > 0 {
				r = &failingReader{r: r, left: v.readFail - 1}
			}
			if v.pre > 0 {
				// the file is what follows a header the caller has read: the source's offset is not 0 when it is handed over
				hdr := []byte("HEADER-ALREADY-CONSUMED-BY-THE-CALLER\n")
				all := append(append([]byte{}, hdr...), content...)
				if v.pre == 1 {
					br := bytes.NewReader(all)
					br.Seek(int64(len(hdr)), io.SeekStart)
					r = br
				} else {
					f, ferr := os.CreateTemp("", "vh-pre-")
					if ferr != nil {
						err = ferr
						return
					}
					defer os.Remove(f.Name())
					defer f.Close()
					f.Write(all)
					f.Seek(int64(len(hdr)), io.SeekStart)
					r = f
				}
			}
			lnk, size, err = builder.BuildUnixFSFile(r, bc.Chunker, ls)
		case "symlink":
			lnk, size, err = builder.BuildUnixFSSymlink(bc.Target, ls)
		case "dir", "sharded", "quickdir":
			dc := &DirCase{Builder: map[string]string{"dir": "dir", "sharded": "sharded", "quickdir": "quick"}[bc.What],
				Fanout: bc.Fanout, Universe: bc.Universe, Entries: v.order, MixV0: bc.MixV0, Hasher: bc.Hasher, SizeBase: bc.SizeBase, LS: ls}
			dc.Links = make([]int, len(v.order))
			for i, id := range v.order {
				dc.Links[i] = id % nTargets
			}
			var c cid.Cid
			c, size, err = buildDir(st, dc, targets)
			if err == nil {
				lnk = cidlink.Link{Cid: c}
			}
		case "quicktree":
			// the quick builder producing children and parents in one Store call: bc.Len small files (every 50th one
			// multi-block), a sub-directory holding the first ten of them, and the root directory of everything
			builder.DefaultLinksPerBlock = 174
			err = quickbuilder.Store(ls, func(b *quickbuilder.Builder) error {
				all, sub := map[string]quickbuilder.Node{}, map[string]quickbuilder.Node{}
				for i := 0; i < bc.Len; i++ {
					data := []byte(fmt.Sprintf("quick file %d", i))
					if i%50 == 7 {
						data = makeContent("random", 300000+i, int64(i))
					}
					n := b.NewBytesFile(data)
					all[fmt.Sprintf("f%05d", i)] = n
					if i < 10 {
						sub[fmt.Sprintf("s%d", i)] = n
					}
				}
				all["sub"] = b.NewMapDirectory(sub)
				root := b.NewMapDirectory(all)
				lnk = root.Link()
				s, _ := root.Size()
				size = uint64(s)
				return nil
			})
		case "recursive":
			builder.DefaultLinksPerBlock = bc.W
			root := filepath.Join(treeDir, bc.Tree.Name)
			switch v.altRoot {
			case 1:
				d2, derr := os.MkdirTemp("", "vh-tree2-")
				if derr != nil {
					err = derr
					return
				}
				defer os.RemoveAll(d2)
				deep := filepath.Join(d2, "some", "other place")
				if err = os.MkdirAll(deep, 0o755); err != nil {
					return
				}
				if err = bc.Tree.materialize(deep); err != nil {
					return
				}
				root = filepath.Join(deep, bc.Tree.Name)
			case 2:
				if cwd, cerr := os.Getwd(); cerr == nil {
					if rel, rerr := filepath.Rel(cwd, root); rerr == nil {
						root = rel
					}
				}
			}
			lnk, size, err = builder.BuildUnixFSRecursive(root, ls)
		}
	})
	if pm != nil {
		err = pm
	}
	root := cid.Undef
	if lnk != nil {
		if cl, ok := lnk.(cidlink.Link); ok {
			root = cl.Cid
		}
	}
	if st.parallel {
		st.mu.Lock()
		defer st.mu.Unlock()
	}
	commits := []M{}
	for _, ce := range st.commits[c0:] {
		commits = append(commits, parseCommit(cc, ce))
	}
	faulted := false
	wev := []string{}
	for _, w := range st.wevents[w0:] {
		wev = append(wev, w.Kind)
		if w.Kind == "openfail" || w.Kind == "commitfail" {
			faulted = true
		}
	}
	rootS := ""
	if root.Defined() {
		rootS = root.String()
	}
	ev := M{"ev": "build", "what": bc.What, "input": v.input, "tag": v.tag, "commits": commits, "wev": wev, "ext": ext,
		"ret":      M{"link": cc.classOf(root), "size": size, "e": errClass(err)},
		"failOpen": v.failOpen, "failCommit": v.failCommit, "faulted": faulted, "root": rootS,
		"n": -1, "w": bc.W, "opens": st.opens - o0, "ncommits": len(st.commits) - c0, "readFail": v.readFail - 1}
	return ev, st, root
}

func runBuildCase(bc *BuildCase, tr *Tr) error {
	cc := &caseClasses{m: map[string]int{}}
	var content []byte
	if bc.What == "file" {
		content = makeContent(bc.Content, bc.Len, bc.Seed)
	}
	treeDir := ""
	if bc.What == "recursive" {
		d, err := os.MkdirTemp("", "vh-tree-")
		if err != nil {
			return err
		}
		defer os.RemoveAll(d)
		if err := bc.Tree.materialize(d); err != nil {
			return err
		}
		treeDir = d
	}
	tr.Emit(M{"ev": "reset", "case": caseString(bc)})
	base := buildVariant{input: 1, order: bc.Entries, tag: "clean"}
	ev, st, root := oneBuild(bc, base, cc, content, treeDir)
	produced := []int{}
	for _, ce := range st.commits {
		produced = append(produced, cc.classOf(ce.Cid))
	}
	ev["produced"] = produced
	ev["clean"] = true
	if bc.What == "file" {
		ev["n"] = countChunks(content, bc.Chunker)
		if root.Defined() {
			if fw, err := walkFile(st, root); err == nil {
				ev["shape"] = shapeOf(fw)
			} else {
				ev["shape"] = []int{-1}
			}
		} else {
			ev["shape"] = []int{-1}
		}
		if bc.Ref {
			st2 := NewStore()
			rroot, rsize, err := buildBoxoFile(st2, content, bc.Chunker, bc.W, "balanced", true, 1)
			if err != nil {
				return err
			}
			fw2, err := walkFile(st2, rroot)
			if err != nil {
				return err
			}
			ev["refShape"] = shapeOf(fw2)
			if n, ok := ev["n"].(int); ok && n <= 200 {
				st3 := NewStore()
				if troot, _, err := buildBoxoFile(st3, content, bc.Chunker, bc.W, "trickle", true, 1); err == nil {
					if fw3, err := walkFile(st3, troot); err == nil {
						ev["trickleShape"] = shapeOf(fw3)
					}
				}
			}
			ev["refEq"] = root.Defined() && rroot.Equals(root) && rsize == uint64(num64(ev["ret"].(M)["size"]))
		}
	}
	if bc.SizeBase > 0 {
		summarizeHuge(ev, st, root, bc)
	} else {
		summarizeBig(ev)
	}
	tr.Emit(ev)
	emit := func(v buildVariant) {
		e, _, _ := oneBuild(bc, v, cc, content, treeDir)
		e["produced"] = produced
		e["clean"] = false
		summarizeBig(e)
		tr.Emit(e)
	}
	for i := 0; i < bc.Repeat; i++ {
		emit(buildVariant{input: 1, order: bc.Entries, tag: fmt.Sprintf("repeat-%d", i)})
	}
	if bc.Repeat > 0 && len(bc.Universe) < 5000 {
		// the same input once more into the store that already holds the result (a rebuild), through the same LinkSystem
		// object; then through that object after its storage was pointed at a fresh store
		e2, _, _ := oneBuild(bc, buildVariant{input: 1, order: bc.Entries, tag: "same-store", st: st, ls: st.lastLS}, cc, content, treeDir)
		e2["produced"], e2["clean"] = produced, false
		summarizeBig(e2)
		tr.Emit(e2)
		e3, _, _ := oneBuild(bc, buildVariant{input: 1, order: bc.Entries, tag: "swapped-store", ls: st.lastLS, swap: true}, cc, content, treeDir)
		e3["produced"], e3["clean"] = produced, false
		summarizeBig(e3)
		tr.Emit(e3)
	}
	if bc.Repeat > 0 && len(bc.Universe) < 5000 {
		// the same input once more after unrelated builds in the same process: a sharded directory of a wider and of a
		// narrower fanout, and a look-alike file (same length, other chunk boundaries)
		buildDecoys(bc)
		emit(buildVariant{input: 1, order: bc.Entries, tag: "after-decoys"})
	}
	if bc.Repeat > 0 && len(bc.Universe) < 5000 && bc.What != "quicktree" {
		// several builders of the same input at once, through one LinkSystem into one store (a parallel importer): every
		// one of them must return what a build on its own returns, and sizes that add up
		pst := NewStore()
		putTargets(pst)
		pst.parallel, pst.logWrites = true, true
		pls := pst.LinkSystem()
		const G = 4
		evs := make([]M, G)
		var wg sync.WaitGroup
		for g := 0; g < G; g++ {
			wg.Add(1)
			go func(g int) {
				defer wg.Done()
				pcc := &caseClasses{m: map[string]int{}}
				e, _, _ := oneBuild(bc, buildVariant{input: 1, order: bc.Entries, tag: fmt.Sprintf("parallel-%d", g), st: pst, ls: pls}, pcc, content, treeDir)
				evs[g] = e
			}(g)
		}
		wg.Wait()
		for _, e := range evs {
			// the commit sequences of the builders interleave: the structural facts are computed from the final store
			root, _ := cid.Decode(fmt.Sprint(e["root"]))
			ret := e["ret"].(M)
			cum, tsizeOK := storeCum(pst, root)
			e["produced"], e["clean"], e["big"] = produced, false, true
			e["bigOK"] = M{"nodangling": true, "tsize": tsizeOK, "filesizes": true, "complete": true,
				"returned": ret["e"] != "nil" || !root.Defined() || cum == num64(ret["size"])}
			ret["link"] = cc.classOf(root)
			e["commits"], e["ext"], e["n"] = []M{}, []M{}, -1
			tr.Emit(e)
		}
	}
	if bc.Repeat > 0 && bc.What == "file" {
		// the same content behind a header the caller has already consumed (seekable sources at a non-zero offset)
		emit(buildVariant{input: 1, order: bc.Entries, pre: 1, tag: "pre-bytesreader"})
		emit(buildVariant{input: 1, order: bc.Entries, pre: 2, tag: "pre-osfile"})
	}
	if bc.Repeat > 0 && bc.What == "recursive" {
		// the same tree somewhere else on disk, and its root spelled as a relative path
		emit(buildVariant{input: 1, order: bc.Entries, altRoot: 1, tag: "other-directory"})
		emit(buildVariant{input: 1, order: bc.Entries, altRoot: 2, tag: "relative-root"})
	}
	for i, o := range bc.Orders {
		emit(buildVariant{input: 1, order: o, tag: fmt.Sprintf("order-%d", i)})
	}
	for i, f := range bc.Frags {
		emit(buildVariant{input: 1, order: bc.Entries, frag: f, tag: fmt.Sprintf("frag-%d", i)})
		emit(buildVariant{input: 1, order: bc.Entries, frag: f, eofWithData: true, tag: fmt.Sprintf("frag-eof-%d", i)})
	}
	if bc.What == "file" && (bc.ReadFaults || len(bc.ReadFailAt) > 0) {
		ks := bc.ReadFailAt
		if len(ks) == 0 {
			for k := 0; k <= len(content); k++ {
				ks = append(ks, k)
			}
		}
		for _, k := range ks {
			if k >= 0 && k <= len(content) {
				emit(buildVariant{input: 1, order: bc.Entries, readFail: k + 1, tag: fmt.Sprintf("readfail-%d", k)})
				emit(buildVariant{input: 1, order: bc.Entries, readFail: k + 1, frag: []int{1, 5, 2}, tag: fmt.Sprintf("readfail-frag-%d", k)})
			}
		}
	}
	if bc.Faults {
		nOpens, nCommits := st.opens, len(st.commits)
		pick := func(n int) []int {
			var ks []int
			if bc.FaultSample <= 0 || n <= bc.FaultSample {
				for k := 1; k <= n; k++ {
					ks = append(ks, k)
				}
				return ks
			}
			for i := 0; i < bc.FaultSample; i++ {
				ks = append(ks, 1+i*(n-1)/(bc.FaultSample-1))
			}
			return ks
		}
		// the value of the storage error must not matter: every position with a plain I/O error and with errors that
		// are / wrap io.EOF (a remote store whose connection closed)
		for _, k := range pick(nOpens) {
			for _, we := range []string{"", "eof", "eofwrap"} {
				emit(buildVariant{input: 1, order: bc.Entries, failOpen: k, werr: we, tag: fmt.Sprintf("failopen-%d-%s", k, we)})
			}
		}
		for _, k := range pick(nCommits) {
			for _, we := range []string{"", "eof", "eofwrap"} {
				emit(buildVariant{input: 1, order: bc.Entries, failCommit: k, werr: we, tag: fmt.Sprintf("failcommit-%d-%s", k, we)})
			}
		}
	}
	return nil
}

// summarizeHuge: directories whose entries are declared with sizes beyond 32 bits (TLC's integers end there): the
// C11 facts computed here in 64 bits from the stored blocks - every link to a block this build produced carries that
// block's cumulative size, every entry link the declared size of its entry, the returned size is the root's cumulative size.
func summarizeHuge(ev M, st *Store, root cid.Cid, bc *BuildCase) {
	declared := map[string]int64{}
	for _, id := range bc.Entries {
		declared[bc.Universe[id-1]] = bc.SizeBase + int64(id)
	}
	tsizeOK := true
	var cum func(c cid.Cid) int64
	cum = func(c cid.Cid) int64 {
		b, ok := st.Get(c)
		if !ok {
			tsizeOK = false
			return 0
		}
		pn, d, err := decodePB(c, b)
		if err != nil || pn == nil {
			return int64(len(b))
		}
		pad := 0
		if d != nil && d.GetType() == pb.Data_HAMTShard && d.GetFanout() > 0 {
			pad = len(fmt.Sprintf("%X", d.GetFanout()-1))
		}
		total := int64(len(b))
		for _, l := range pn.Links() {
			var want int64
			if pad > 0 && len(l.Name) == pad {
				want = cum(l.Cid) // a child shard this build produced
			} else {
				name := l.Name
				if pad > 0 && len(name) > pad {
					name = name[pad:]
				}
				want = declared[name]
			}
			if int64(l.Size) != want {
				tsizeOK = false
			}
			total += want
		}
		return total
	}
	ret := ev["ret"].(M)
	returned := true
	if ret["e"] == "nil" && root.Defined() {
		returned = cum(root) == num64(ret["size"])
	}
	ev["big"] = true
	ev["bigOK"] = M{"nodangling": true, "tsize": tsizeOK, "filesizes": true, "returned": returned, "complete": true}
	ev["ncommits"] = len(ev["commits"].([]M))
	ev["commits"] = []M{}
	ev["n"] = -1
	// sizes do not fit TLC's integers: carried as a flag only
	ret["size"] = 0
	ev["ext"] = []M{}
}

// storeCum: the cumulative encoded size below c computed from the final store (block length plus, per link, the
// cumulative size of a stored target or else the link's own Tsize), and whether every link to a stored block carries that size.
func storeCum(st *Store, c cid.Cid) (int64, bool) {
	ok := true
	memo := map[string]int64{}
	var rec func(c cid.Cid) int64
	rec = func(c cid.Cid) int64 {
		if v, seen := memo[c.KeyString()]; seen {
			return v
		}
		b, have := st.Get(c)
		if !have {
			ok = false
			return 0
		}
		total := int64(len(b))
		if c.Prefix().Codec == cid.DagProtobuf {
			if pn, _, err := decodePB(c, b); err == nil && pn != nil {
				for _, l := range pn.Links() {
					if _, stored := st.Get(l.Cid); stored && !isTarget(st, l.Cid) {
						sub := rec(l.Cid)
						if int64(l.Size) != sub {
							ok = false
						}
						total += sub
					} else {
						total += int64(l.Size)
					}
				}
			}
		}
		memo[c.KeyString()] = total
		return total
	}
	if !c.Defined() {
		return 0, true
	}
	return rec(c), ok
}

// isTarget: one of the pre-existing entry targets (their declared size is what the entry says, not their length)
func isTarget(st *Store, c cid.Cid) bool {
	for _, t := range st.targets {
		if t.Equals(c) {
			return true
		}
	}
	return false
}

const bigBuild = 150

// summarizeBig replaces the commit list of a large build (too large for TLC to
// walk link by link) by the same C11/C16 facts computed here.
func summarizeBig(ev M) {
	commits := ev["commits"].([]M)
	ev["big"] = len(commits) > bigBuild
	if len(commits) <= bigBuild {
		return
	}
	produced := map[int]bool{}
	for _, c := range ev["produced"].([]int) {
		produced[c] = true
	}
	ext := map[int]int64{}
	for _, e := range ev["ext"].([]M) {
		ext[e["c"].(int)] = num64(e["tsize"])
	}
	cum := map[int]int64{}
	byt := map[int]int64{}
	nodangling, tsizeOK, fsOK := true, true, true
	for _, c := range commits {
		id := c["c"].(int)
		total := int64(c["len"].(int))
		var bsum int64
		links := c["links"].([]M)
		for i, l := range links {
			lc := l["c"].(int)
			v, ok := cum[lc]
			if !ok {
				if t, isExt := ext[lc]; isExt {
					v = t
				} else if produced[lc] {
					nodangling = false
				}
			}
			if (ok || ext[lc] != 0) && num64(l["tsize"]) != v {
				tsizeOK = false
			}
			total += v
			bsum += byt[lc]
			if c["isfile"].(bool) {
				bs := c["bsizes"].([]int64)
				if i >= len(bs) || bs[i] != byt[lc] {
					fsOK = false
				}
			}
		}
		if len(links) == 0 {
			bsum = num64(c["bytes"])
		} else if c["isfile"].(bool) && num64(c["fsize"]) != bsum {
			fsOK = false
		}
		if _, dup := cum[id]; !dup {
			cum[id] = total
			byt[id] = bsum
		}
	}
	ret := ev["ret"].(M)
	returned := true
	if ret["e"] == "nil" && ret["link"].(int) != 0 {
		returned = cum[ret["link"].(int)] == num64(ret["size"])
	}
	complete := true
	if ret["link"].(int) != 0 {
		_, complete = cum[ret["link"].(int)]
	}
	ev["bigOK"] = M{"nodangling": nodangling, "tsize": tsizeOK, "filesizes": fsOK, "returned": returned, "complete": complete}
	ev["ncommits"] = len(commits)
	ev["commits"] = []M{}
	ev["n"] = -1
}

var treeNames = []string{"a", "b b", "ünï", "c.txt", "0A", "z-long-name-with-many-characters", "a.md", "ab", "b b 2", "c", ".hidden", ".config", "..data", "-dash"}

// randomTree draws a small filesystem tree: depth <= 2, <= 3 children.
func randomTree(r *rand.Rand, depth int, allowFifo bool) *TreeSpec {
	t := &TreeSpec{Name: "root", Kind: "dir"}
	if depth > 0 {
		t.Name = ""
	}
	nk := r.Intn(4)
	used := map[string]bool{}
	for i := 0; i < nk; i++ {
		name := treeNames[r.Intn(len(treeNames))]
		if used[name] {
			continue
		}
		used[name] = true
		var c *TreeSpec
		switch k := r.Intn(7); {
		case k == 0:
			c = &TreeSpec{Kind: "file", Size: 0}
		case k == 1:
			c = &TreeSpec{Kind: "file", Size: 1 + r.Intn(2000), Seed: r.Int63()}
		case k == 2:
			c = &TreeSpec{Kind: "file", Size: 262144*2 + r.Intn(300000), Seed: r.Int63()}
		case k == 3 && depth < 2:
			c = randomTree(r, depth+1, allowFifo)
		case k == 4:
			c = &TreeSpec{Kind: "symlink", Target: []string{"a", "../up", "/abs/path", "dangling/nowhere", "ü", "./a", "sub/", "a//b", "x/../y", "/abs/dangling ü/."}[r.Intn(10)]}
		case k == 5 && allowFifo && r.Intn(3) == 0:
			c = &TreeSpec{Kind: "fifo"}
		default:
			c = &TreeSpec{Kind: "dir"}
		}
		c.Name = name
		t.Children = append(t.Children, c)
	}
	return t
}

func num64(x any) int64 {
	switch v := x.(type) {
	case uint64:
		return int64(v)
	case int64:
		return v
	case int:
		return int64(v)
	case float64:
		return int64(v)
	}
	return -1
}

func init() {
	caseRunners["build"] = func(b []byte, tr *Tr) error {
		var bc BuildCase
		if err := json.Unmarshal(b, &bc); err != nil {
			return err
		}
		return runBuildCase(&bc, tr)
	}
	cmds["build-gen"] = func(args []string) error {
		fs := flag.NewFlagSet("build-gen", flag.ExitOnError)
		what := fs.String("what", "files", "files|dirs|misc|random|frag|trees")
		maxN := fs.Int("maxn", 12, "max chunks")
		wmax := fs.Int("wmax", 4, "max width")
		faults := fs.Bool("faults", false, "inject every single write failure")
		repeat := fs.Int("repeat", 2, "repeats")
		orders := fs.Int("orders", 6, "orders")
		fanouts := fs.String("fanouts", "8,256", "fanouts")
		seed := fs.Int64("seed", 1, "seed")
		count := fs.Int("count", 30, "random cases")
		out := fs.String("out", "", "trace output")
		fs.Parse(args)
		tr, err := NewTr(*out)
		if err != nil {
			return err
		}
		defer tr.Close()
		r := rand.New(rand.NewSource(*seed))
		switch *what {
		case "files":
			for w := 2; w <= *wmax; w++ {
				for n := 0; n <= *maxN; n++ {
					for _, last := range []int{3, 1} {
						if n == 0 && last == 1 {
							continue
						}
						sh := shape{n, w, 3, last}
						bc := &BuildCase{Fam: "build", ID: fmt.Sprintf("file-%d-%d-%d", n, w, last), What: "file", Len: sh.length(),
							Chunker: "size-3", W: w, Content: "distinct", Ref: true, Faults: *faults, ReadFaults: *faults}
						if err := runBuildCase(bc, tr); err != nil {
							return err
						}
					}
				}
			}
		case "deep":
			// narrow widths with many chunks: trees of 8..10 levels
			for _, nw := range [][2]int{{127, 2}, {128, 2}, {129, 2}, {130, 2}, {257, 2}, {513, 2}, {730, 3}, {2188, 3}} {
				if nw[0] > *maxN {
					continue
				}
				bc := &BuildCase{Fam: "build", ID: fmt.Sprintf("deep-%d-%d", nw[0], nw[1]), What: "file", Len: nw[0], Chunker: "size-1", W: nw[1],
					Content: "random", Seed: int64(nw[0]), Ref: true}
				if err := runBuildCase(bc, tr); err != nil {
					return err
				}
			}
		case "dedup":
			// chunk-equality patterns: repeated chunks make the de-duplicated store
			// smaller than the tree (set partitions of n chunks into <= 2 values)
			for w := 2; w <= *wmax; w++ {
				for n := 1; n <= *maxN; n++ {
					for pat := 0; pat < (1<<uint(n)) && pat < 64; pat++ {
						bc := &BuildCase{Fam: "build", ID: fmt.Sprintf("dedup-%d-%d-%d", n, w, pat), What: "file", Len: n * 2,
							Chunker: "size-2", W: w, Content: fmt.Sprintf("pattern:%d", pat), Ref: true}
						if err := runBuildCase(bc, tr); err != nil {
							return err
						}
					}
				}
			}
		case "frag":
			// every composition of a short length into fragments, several chunkers
			for L := 0; L <= *maxN; L++ {
				var frs [][]int
				for mask := 0; mask < 1<<uint(max(L-1, 0)); mask++ {
					var f []int
					run := 1
					for i := 0; i < L-1; i++ {
						if mask&(1<<uint(i)) != 0 {
							f = append(f, run)
							run = 1
						} else {
							run++
						}
					}
					f = append(f, run)
					frs = append(frs, f)
				}
				for _, ch := range []string{"size-1", "size-3", "size-4"} {
					bc := &BuildCase{Fam: "build", ID: fmt.Sprintf("frag-%d-%s", L, ch), What: "file", Len: L, Chunker: ch, W: 2,
						Content: "distinct", Frags: frs, Repeat: 1}
					if err := runBuildCase(bc, tr); err != nil {
						return err
					}
				}
			}
			// content-defined chunkers on larger inputs with random fragmentations
			for i := 0; i < *count; i++ {
				ch := []string{"rabin-32-64-128", "rabin", "buzhash", "", "size-1000"}[i%5]
				L := 1 + r.Intn(1<<16)
				if ch == "rabin" || ch == "buzhash" || ch == "" {
					L = 1 + r.Intn(1<<21)
				}
				var frs [][]int
				for j := 0; j < 6; j++ {
					var f []int
					for k := 0; k < 1+r.Intn(5); k++ {
						f = append(f, 1+r.Intn(1+r.Intn(70000)))
					}
					frs = append(frs, f)
				}
				bc := &BuildCase{Fam: "build", ID: fmt.Sprintf("fragr-%d-%d", *seed, i), What: "file", Len: L, Chunker: ch,
					W: []int{2, 3, 174}[r.Intn(3)], Content: "random", Seed: r.Int63(), Frags: frs, Ref: true}
				if err := runBuildCase(bc, tr); err != nil {
					return err
				}
			}
		case "dirs":
			for fi, f := range parseInts(*fanouts) {
				u := mineUniverse(f, []string{"plain", "unicode", "hexish", "space"}[fi%4])
				for m := 0; m < 64; m++ {
					var s []int
					for i := 0; i < 6; i++ {
						if m&(1<<i) != 0 {
							s = append(s, i+1)
						}
					}
					for _, what := range []string{"sharded", "dir", "quickdir"} {
						if what != "sharded" && fi > 0 {
							continue
						}
						bc := &BuildCase{Fam: "build", ID: fmt.Sprintf("%s-%d-%v", what, f, s), What: what, Fanout: f, Universe: u,
							Entries: s, Orders: someOrders(s, *orders, r), Repeat: *repeat, Faults: *faults && what != "quickdir"}
						if err := runBuildCase(bc, tr); err != nil {
							return err
						}
					}
				}
			}
		case "hashers":
			// the sharded builder with other name hashers than murmur3 (its API takes any multihash code): same entries, many orders
			for _, hs := range []uint64{0x12, 0x13, 0x11} {
				for _, f := range []int{16, 256} {
					u := mineUniverse(f, "plain")
					ids := []int{1, 2, 3, 4, 5, 6, 7, 8}
					bc := &BuildCase{Fam: "build", ID: fmt.Sprintf("hasher-%x-%d", hs, f), What: "sharded", Fanout: f, Universe: u, Entries: ids,
						Orders: someOrders(ids, *orders, r), Repeat: *repeat, Hasher: hs}
					if err := runBuildCase(bc, tr); err != nil {
						return err
					}
				}
			}
			// fanouts above 256: two child shards whose bucket indices agree in their low byte (names 1,2 and 3,4), many runs
			for _, f := range []int{512, 1024} {
				u := mineUniverse(f, "plain")
				ids := []int{1, 2, 3, 4}
				bc := &BuildCase{Fam: "build", ID: fmt.Sprintf("congruent-%d", f), What: "sharded", Fanout: f, Universe: u, Entries: ids,
					Orders: someOrders(ids, *orders, r), Repeat: 8 * *repeat}
				if err := runBuildCase(bc, tr); err != nil {
					return err
				}
			}
		case "mixdir":
			// directories whose size estimate is within 1% of the auto-shard threshold, with entry links of two
			// different lengths (CIDv0 / CIDv1): the same entries in several orders and repeated (map-ordered) builds
			for _, n := range []int{1944, 1945, 1946, 1950} {
				if n > *maxN*200 {
					continue
				}
				u := make([]string, n)
				ids := make([]int, n)
				for i := range u {
					u[i] = fmt.Sprintf("%0100d", i)
					ids[i] = i + 1
				}
				rot := append(append([]int{}, ids[1:]...), ids[0])
				rev := make([]int, n)
				for i := range ids {
					rev[i] = ids[n-1-i]
				}
				for _, what := range []string{"dir", "quickdir"} {
					bc := &BuildCase{Fam: "build", ID: fmt.Sprintf("mixdir-%s-%d", what, n), What: what, Universe: u, Entries: ids,
						Orders: [][]int{rot, rev}, Repeat: *repeat, MixV0: true}
					if *faults && what == "dir" && n == 1950 {
						// an automatically sharded directory (hundreds of shard blocks): transient write failures at sampled positions
						bc.Orders, bc.Repeat, bc.Faults, bc.FaultSample = nil, 0, true, 7
					}
					if err := runBuildCase(bc, tr); err != nil {
						return err
					}
				}
			}
		case "threshold":
			// plain / auto-sharded directories whose size estimate (sum of name length + link length) lands *exactly* on
			// the 256 KiB sharding threshold after a proper prefix of the entries: entries of weight 64 and 128
			for _, wn := range [][2]int{{28, 4095}, {28, 4096}, {28, 4097}, {28, 4106}, {28, 4500}, {92, 2047}, {92, 2048}, {92, 2049}, {92, 2100}} {
				n := wn[1]
				u := make([]string, n)
				ids := make([]int, n)
				for i := range u {
					u[i] = fmt.Sprintf("%0*d", wn[0], i)
					ids[i] = i + 1
				}
				for _, what := range []string{"dir", "quickdir"} {
					bc := &BuildCase{Fam: "build", ID: fmt.Sprintf("threshold-%s-%d-%d", what, wn[0], n), What: what, Universe: u, Entries: ids, Repeat: 1}
					if err := runBuildCase(bc, tr); err != nil {
						return err
					}
				}
			}
		case "hugesizes":
			// entries declared with cumulative sizes beyond 32 bits (multi-gigabyte files), plain and sharded
			for fi, f := range []int{8, 256} {
				u := mineUniverse(f, "plain")
				ids := []int{1, 2, 3, 4, 5, 6, 7, 8}
				for _, what := range []string{"sharded", "dir"} {
					bc := &BuildCase{Fam: "build", ID: fmt.Sprintf("hugesizes-%s-%d", what, f), What: what, Fanout: f, Universe: u, Entries: ids,
						SizeBase: int64(1)<<32 + int64(fi)<<33 + 12345}
					if err := runBuildCase(bc, tr); err != nil {
						return err
					}
				}
			}
		case "hugedir":
			// a sharded directory of 70 000 entries, built twice
			n := 70000
			u := make([]string, n)
			ids := make([]int, n)
			for i := range u {
				u[i] = fmt.Sprintf("entry-%06d", i)
				ids[i] = i + 1
			}
			bc := &BuildCase{Fam: "build", ID: "hugedir-70000", What: "sharded", Fanout: 256, Universe: u, Entries: ids, Repeat: 1}
			if err := runBuildCase(bc, tr); err != nil {
				return err
			}
		case "quicktrees":
			for _, n := range []int{0, 1, 12, 300, 700, 1200} {
				bc := &BuildCase{Fam: "build", ID: fmt.Sprintf("quicktree-%d", n), What: "quicktree", Len: n, Repeat: 1}
				if err := runBuildCase(bc, tr); err != nil {
					return err
				}
			}
		case "misc":
			// a source reader that fails at / around the read-ahead and chunk boundaries of the default and a content-defined chunker
			for i, ch := range []string{"", "size-262144", "rabin-16-32-64", "buzhash"} {
				bc := &BuildCase{Fam: "build", ID: fmt.Sprintf("readfail-%q", ch), What: "file", Len: 600000, Chunker: ch, W: []int{174, 2, 3, 174}[i],
					Content: "random", Seed: 77, ReadFailAt: []int{0, 1, 511, 512, 4095, 4096, 4097, 65536, 262143, 262144, 262145, 524288, 599999, 600000}}
				if err := runBuildCase(bc, tr); err != nil {
					return err
				}
			}
			for _, tgt := range []string{"", "a", "../x/y", "/abs/olute", "ünï ço dé", string(make([]byte, 300))} {
				bc := &BuildCase{Fam: "build", ID: fmt.Sprintf("symlink-%q", tgt), What: "symlink", Target: tgt, Faults: true, Repeat: 1}
				if err := runBuildCase(bc, tr); err != nil {
					return err
				}
			}
		case "random":
			for i := 0; i < *count; i++ {
				ch := []string{"size-%d", "rabin-32-64-128", "rabin", "buzhash", ""}[r.Intn(5)]
				L := r.Intn(1 << 15)
				if ch == "size-%d" {
					cs := 1 + r.Intn(2000)
					ch = fmt.Sprintf("size-%d", cs)
					L = r.Intn(min(1<<17, cs*2500) + 1) // at most ~2500 chunks: the trace line carries the tree shape
				} else if ch != "rabin-32-64-128" {
					L = r.Intn(3 << 20)
				}
				bc := &BuildCase{Fam: "build", ID: fmt.Sprintf("rfile-%d-%d", *seed, i), What: "file", Len: L, Chunker: ch,
					W: []int{2, 3, 4, 5, 6, 7, 8, 9, 174}[r.Intn(9)], Content: []string{"random", "repeat"}[r.Intn(2)], Seed: r.Int63(),
					Ref: true, Repeat: 1}
				if err := runBuildCase(bc, tr); err != nil {
					return err
				}
			}
		case "trees":
			for i := 0; i < *count; i++ {
				tree := randomTree(r, 0, false)
				if i%5 == 4 {
					// the import is rooted at a regular file (one block / several chunks) or at a symlink
					tree = []*TreeSpec{{Name: "root", Kind: "file", Size: 700, Seed: r.Int63()}, {Name: "root", Kind: "file", Size: 600000, Seed: r.Int63()},
						{Name: "root", Kind: "symlink", Target: "elsewhere"}, {Name: "root", Kind: "file", Size: 0}}[(i/5)%4]
				}
				bc := &BuildCase{Fam: "build", ID: fmt.Sprintf("tree-%d-%d", *seed, i), What: "recursive", W: 2 + r.Intn(3), Tree: tree,
					Faults: *faults, Repeat: 1}
				if err := runBuildCase(bc, tr); err != nil {
					return err
				}
			}
		case "cdc":
			// content-defined chunkers on small inputs at small widths: neighbouring link nodes with equal child count and
			// equal byte totals but different child sizes occur for a few percent of the seeds
			for i := 0; i < *count; i++ {
				bc := &BuildCase{Fam: "build", ID: fmt.Sprintf("cdc-%d-%d", *seed, i), What: "file", Len: 1024, Chunker: []string{"rabin-16-32-64", "rabin-32-64-128"}[i%2],
					W: 2 + i%3, Content: "random", Seed: r.Int63(), Ref: true}
				if err := runBuildCase(bc, tr); err != nil {
					return err
				}
			}
		case "chunkers":
			// every chunker string form at the boundaries of its parameters: the largest permitted chunk (1 MiB, inclusive), one
			// below it, the default size and one above it; content-defined chunkers on content that never cuts (chunks of the
			// maximum size) and on random content
			for i, ch := range []string{"size-1048576", "size-1048575", "size-262144", "size-262145", "default", "",
				"rabin-262144-524288-1048576", "rabin-16-1048575-1048576", "rabin", "buzhash", "size-1", "rabin-4096", "rabin-65536", "rabin-262144"} {
				for _, content := range []string{"random", "repeat"} {
					L := 5*(1<<19) + 5
					if ch == "size-1" {
						L = 1000
					}
					bc := &BuildCase{Fam: "build", ID: fmt.Sprintf("chunker-%q-%s", ch, content), What: "file", Len: L, Chunker: ch, W: []int{174, 2}[i%2],
						Content: content, Seed: int64(i + 1), Ref: true, Repeat: map[bool]int{true: 1}[i%3 == 0]}
					if err := runBuildCase(bc, tr); err != nil {
						return err
					}
				}
			}
			// sparse-looking files: data and all-zero runs alternate, the last run is a short all-zero one
			for i, kl := range [][3]int{{4096, 4096*3 + 1536, 0}, {4096, 4096*5 + 1, 0}, {262144, 262144*3 + 1000, 1}, {1000, 3500, 2}, {4096, 4096 * 4, 0}} {
				ch := []string{fmt.Sprintf("size-%d", kl[0]), "", "size-1000"}[kl[2]]
				bc := &BuildCase{Fam: "build", ID: fmt.Sprintf("holes-%d-%d", kl[0], kl[1]), What: "file", Len: kl[1], Chunker: ch, W: []int{174, 2, 3}[i%3],
					Content: fmt.Sprintf("holes:%d", kl[0]), Seed: int64(i + 1), Ref: true, Repeat: 1}
				if err := runBuildCase(bc, tr); err != nil {
					return err
				}
			}
		case "wide":
			// link nodes with hundreds of children (their UnixFS Data exceeds 1 KiB)
			for _, nw := range [][2]int{{256, 256}, {600, 600}, {1024, 1024}, {700, 350}} {
				if nw[0] > *maxN*4 {
					continue
				}
				bc := &BuildCase{Fam: "build", ID: fmt.Sprintf("fat-%d-%d", nw[0], nw[1]), What: "file", Len: nw[0], Chunker: "size-1", W: nw[1],
					Content: "random", Seed: int64(nw[0]), Ref: true}
				if err := runBuildCase(bc, tr); err != nil {
					return err
				}
			}
			for _, L := range []int{300 * 20000} {
				if *maxN < 400 {
					continue
				}
				bc := &BuildCase{Fam: "build", ID: fmt.Sprintf("fat16k-%d", L), What: "file", Len: L, Chunker: "size-20000", W: 300,
					Content: "random", Seed: 5, Ref: true}
				if err := runBuildCase(bc, tr); err != nil {
					return err
				}
			}
			// the real default width around its boundaries (one-byte chunks)
			for _, n := range []int{173, 174, 175, 176, 347, 348, 349, 174*174 - 1, 174 * 174, 174*174 + 1} {
				if n > *maxN {
					continue
				}
				bc := &BuildCase{Fam: "build", ID: fmt.Sprintf("wide-%d", n), What: "file", Len: n, Chunker: "size-1", W: 174,
					Content: "random", Seed: int64(n), Ref: true}
				if err := runBuildCase(bc, tr); err != nil {
					return err
				}
			}
		default:
			return fmt.Errorf("unknown -what %q", *what)
		}
		return nil
	}
}
