package main

import (
	"encoding/json"
	"flag"
	"fmt"
	"math/bits"
	"math/rand"
	"os"
	"strings"
)

// mineUniverse finds six real names whose murmur3 digit paths at the given
// fanout have the collision structure of the TLC name universe (MCHamt.tla):
// names 1,2 share one level, 3,4 two levels, 5,6 three levels (capped so that
// the brute-force search stays below ~2^24 hashes), and the three groups start
// in different root buckets.
var mineCache = map[string][]string{}

func nameTemplate(style string, i int) string {
	switch style {
	case "unicode":
		return fmt.Sprintf("ü ñ %d é", i)
	case "hexish":
		return fmt.Sprintf("0A%XFF", i)
	case "space":
		return fmt.Sprintf(" %d  x", i)
	case "rawbytes":
		// multi-byte characters together with bytes that are not valid UTF-8
		return fmt.Sprintf("caf\xc3\xa9-\xff-%d-\xe6\x97\xa5\xe8", i)
	case "long":
		return fmt.Sprintf("%0300d", i)
	}
	return fmt.Sprintf("f-%d", i)
}

// loadMined reads the committed table of mined universes (harness/mined.json,
// produced by `vh mine`); every entry is re-verified against murmur3 before use.
func loadMined() {
	if minedLoaded {
		return
	}
	minedLoaded = true
	p := os.Getenv("VERIF_MINED")
	if p == "" {
		p = "/verif/harness/mined.json"
	}
	b, err := os.ReadFile(p)
	if err != nil {
		return
	}
	var m map[string][]string
	if json.Unmarshal(b, &m) != nil {
		return
	}
	for k, u := range m {
		var f int
		var style string
		if _, err := fmt.Sscanf(k, "%d/%s", &f, &style); err != nil || len(u) != 12 {
			continue
		}
		if universeOK(f, u) {
			mineCache[k] = u
		}
	}
}

var minedLoaded bool

func shareLen(a, b []int) int {
	n := 0
	for n < len(a) && a[n] == b[n] {
		n++
	}
	return n
}

func capShare(b, want int) int {
	for want > 1 && b*want > 24 {
		want--
	}
	return want
}

// universeOK checks the collision structure the TLC universe prescribes.
func universeOK(fanout int, u []string) bool {
	b := bits.TrailingZeros(uint(fanout))
	d := make([][]int, 12)
	for i := range u {
		d[i] = digitsOf(u[i], b)
	}
	// names 11 and 12 share as many levels as 24 hash bits give (8 levels at fanout 8): the deepest chain we can mine
	if shareLen(d[10], d[11]) != 24/b || d[10][0] == d[0][0] || d[10][0] == d[2][0] || d[10][0] == d[4][0] || d[10][0] == d[8][0] {
		return false
	}
	// name 10 is a proper suffix of name 9 and falls into the same root bucket, away from the other groups
	if !strings.HasSuffix(u[8], u[9]) || len(u[9]) >= len(u[8]) || d[8][0] != d[9][0] ||
		d[8][0] == d[0][0] || d[8][0] == d[2][0] || d[8][0] == d[4][0] {
		return false
	}
	// names 7 and 8 branch off the deep chain of names 5/6 after one and two levels
	if shareLen(d[4], d[6]) != 1 || shareLen(d[4], d[7]) != capShare(b, 2) || shareLen(d[5], d[7]) != capShare(b, 2) {
		return false
	}
	if d[0][0] == d[2][0] || d[0][0] == d[4][0] || d[2][0] == d[4][0] || d[0][0] >= 16 {
		return false
	}
	if fanout >= 512 && d[2][0] != d[0][0]+256 {
		return false
	}
	return shareLen(d[0], d[1]) == capShare(b, 1) && shareLen(d[2], d[3]) == capShare(b, 2) && shareLen(d[4], d[5]) == capShare(b, 3)
}

func mineUniverse(fanout int, style string) []string {
	loadMined()
	k := fmt.Sprintf("%d/%s", fanout, style)
	if u, ok := mineCache[k]; ok {
		return u
	}
	b := bits.TrailingZeros(uint(fanout))
	capShare := func(want int) int { return capShare(b, want) }
	next := 0
	find := func(ok func(d []int) bool) string {
		for {
			n := nameTemplate(style, next)
			next++
			if ok(digitsOf(n, b)) {
				return n
			}
		}
	}
	share := func(base []int, k int) func(d []int) bool {
		return func(d []int) bool {
			for i := 0; i < k; i++ {
				if d[i] != base[i] {
					return false
				}
			}
			return d[k] != base[k]
		}
	}
	u := make([]string, 12)
	// name 1 sits in a low root bucket (index < 16): at fanouts 512/1024 its hex prefix needs two padding zeros
	u[0] = find(func(d []int) bool { return d[0] < 16 })
	d0 := digitsOf(u[0], b)
	u[1] = find(share(d0, capShare(1)))
	// at fanouts above 256 the second group sits in the bucket 256 above the first one (same low byte)
	u[2] = find(func(d []int) bool {
		if fanout >= 512 {
			return d[0] == d0[0]+256
		}
		return d[0] != d0[0]
	})
	d2 := digitsOf(u[2], b)
	u[3] = find(share(d2, capShare(2)))
	// link order variants (one per name style): whether the value links of names 7 / 8 sort before or after
	// the child-shard link of the deep chain in their shard - the iterator's behaviour on a missing child shard
	// depends on whether that shard is the last link of its parent
	variant := 0
	for i, st := range []string{"plain", "unicode", "hexish", "space"} {
		if st == style {
			variant = i
		}
	}
	f1 := 1 << uint(b)
	u[4] = find(func(d []int) bool {
		return d[0] != d0[0] && d[0] != d2[0] && d[1] > 0 && d[1] < f1-1 && d[2] > 0 && d[2] < f1-1
	})
	d4 := digitsOf(u[4], b)
	u[5] = find(share(d4, capShare(3)))
	u[6] = find(func(d []int) bool {
		if shareLen(d, d4) != 1 {
			return false
		}
		if variant&1 == 0 {
			return d[1] < d4[1]
		}
		return d[1] > d4[1]
	})
	d5 := digitsOf(u[5], b)
	u[7] = find(func(d []int) bool {
		if shareLen(d, d4) != capShare(2) || shareLen(d, d5) != capShare(2) {
			return false
		}
		k := capShare(2)
		if variant&2 == 0 {
			return d[k] < d4[k]
		}
		return d[k] > d4[k]
	})
	// a member / probe pair: the probe is a proper suffix of the member and hashes into the same root bucket
	for {
		probe := nameTemplate(style, next)
		next++
		dp := digitsOf(probe, b)
		if dp[0] == d0[0] || dp[0] == d2[0] || dp[0] == d4[0] {
			continue
		}
		found := false
		for j := 0; j < 4*fanout && !found; j++ {
			member := fmt.Sprintf("%c%d.", 'k'+rune(j%7), j) + probe
			if digitsOf(member, b)[0] == dp[0] {
				u[8], u[9] = member, probe
				found = true
			}
		}
		if found {
			break
		}
	}
	// the deepest pair
	d8 := digitsOf(u[8], b)
	u[10] = find(func(d []int) bool { return d[0] != d0[0] && d[0] != d2[0] && d[0] != d4[0] && d[0] != d8[0] })
	d10 := digitsOf(u[10], b)
	u[11] = find(share(d10, 24/b))
	mineCache[k] = u
	return u
}

func perms(xs []int) [][]int {
	if len(xs) <= 1 {
		return [][]int{append([]int(nil), xs...)}
	}
	var out [][]int
	for i := range xs {
		rest := append(append([]int(nil), xs[:i]...), xs[i+1:]...)
		for _, p := range perms(rest) {
			out = append(out, append([]int{xs[i]}, p...))
		}
	}
	return out
}

func someOrders(ids []int, max int, r *rand.Rand) [][]int {
	all := perms(ids)
	if len(all) <= max {
		return all
	}
	out := [][]int{all[0], all[len(all)-1]}
	for len(out) < max {
		out = append(out, all[r.Intn(len(all))])
	}
	return out
}

// stylesFor: at the first (smallest) fanout every name style is used - the styles also select the four
// link-order variants of the mined universe - at the other fanouts one style each.
func stylesFor(fi int) []string {
	all := []string{"plain", "unicode", "hexish", "space"}
	if fi == 0 {
		return all
	}
	return []string{all[fi%len(all)]}
}

func fullDirScript(nuniv int, hows []string) [][]any {
	var sc [][]any
	for id := 1; id <= nuniv; id++ {
		for _, h := range hows {
			sc = append(sc, []any{"lookup", id, h})
		}
	}
	// Length is asked right after an iteration that ended with one read past the end, and again later
	sc = append(sc, []any{"iter", "map"}, []any{"length"}, []any{"iter", "native"}, []any{"length"})
	// other legitimate ways of stepping an iterator, and every name resolved twice in a row
	sc = append(sc, []any{"iter", "map-nodone"}, []any{"iter", "native-nodone"}, []any{"iter", "map-dd"}, []any{"iter", "native-dd"})
	for id := 1; id <= nuniv; id++ {
		sc = append(sc, []any{"lookup", id, "string"}, []any{"lookup", id, "string"}, []any{"lookup", id, hows[id%len(hows)]})
	}
	return sc
}

var allHows = []string{"string", "node", "segment", "native", "dpbnode"}

func parseInts(s string) []int {
	var out []int
	for _, p := range strings.Split(s, ",") {
		var v int
		if _, err := fmt.Sscanf(p, "%d", &v); err == nil {
			out = append(out, v)
		}
	}
	return out
}

func init() {
	caseRunners["dir"] = func(b []byte, tr *Tr) error {
		var dc DirCase
		if err := json.Unmarshal(b, &dc); err != nil {
			return err
		}
		return runDirCase(&dc, tr)
	}

	caseRunners["bigdir"] = func(b []byte, tr *Tr) error {
		var bc BigDirCase
		if err := json.Unmarshal(b, &bc); err != nil {
			return err
		}
		return runBigDirCase(&bc, tr)
	}

	cmds["mine"] = func(args []string) error {
		fs := flag.NewFlagSet("mine", flag.ExitOnError)
		out := fs.String("out", "", "json output")
		fs.Parse(args)
		m := map[string][]string{}
		for _, f := range []int{8, 16, 32, 64, 128, 256, 512, 1024} {
			for _, st := range []string{"plain", "unicode", "hexish", "space"} {
				m[fmt.Sprintf("%d/%s", f, st)] = mineUniverse(f, st)
			}
		}
		b, _ := json.MarshalIndent(m, "", " ")
		return os.WriteFile(*out, b, 0o644)
	}

	cmds["dir-gen"] = func(args []string) error {
		fs := flag.NewFlagSet("dir-gen", flag.ExitOnError)
		what := fs.String("what", "sets", "sets|faults|preload|boxo|hist|raw|random")
		fanouts := fs.String("fanouts", "8,16,256,1024", "fanouts")
		maxOrders := fs.Int("orders", 6, "insertion orders per subset")
		maxLen := fs.Int("maxlen", 3, "raw: max link list length")
		cases := fs.String("cases", "", "hist: TLC-exported histories")
		seed := fs.Int64("seed", 1, "seed")
		count := fs.Int("count", 20, "random cases")
		out := fs.String("out", "", "trace output")
		fs.Parse(args)
		tr, err := NewTr(*out)
		if err != nil {
			return err
		}
		defer tr.Close()
		r := rand.New(rand.NewSource(*seed))
		styles := []string{"plain", "unicode", "hexish", "space"}
		subsets := func() [][]int {
			var out [][]int
			for m := 0; m < 64; m++ {
				var s []int
				for i := 0; i < 6; i++ {
					if m&(1<<i) != 0 {
						s = append(s, i+1)
					}
				}
				out = append(out, s)
				// with the two names that branch off the deep chain (a shard with several child shards)
				if m%4 == 3 || m >= 48 {
					out = append(out, append(append([]int(nil), s...), 7, 8))
				}
				// with the pair that shares 24 hash bits (a chain of 8 shards at fanout 8)
				if m%16 == 5 || m == 0 || m == 63 {
					out = append(out, append(append([]int(nil), s...), 11, 12))
				}
				// with the member whose proper suffix (name 10, never a member here) hashes into the same bucket
				if m%8 == 1 || m == 0 || m == 63 {
					out = append(out, append(append([]int(nil), s...), 9))
				}
			}
			return out
		}
		links := func(ids []int) []int {
			l := make([]int, len(ids))
			for i, id := range ids {
				l[i] = id % nTargets
			}
			return l
		}
		switch *what {
		case "sets":
			for fi, f := range parseInts(*fanouts) {
				u := mineUniverse(f, styles[fi%len(styles)])
				for _, s := range subsets() {
					for oi, ord := range someOrders(s, *maxOrders, r) {
						for _, bld := range []string{"sharded", "dir", "quick"} {
							if bld != "sharded" && (oi > 0 || fi > 0) {
								continue // plain builders do not depend on fanout; one order suffices here (C10 covers orders)
							}
							dc := &DirCase{Fam: "dir", ID: fmt.Sprintf("sets-%d-%v-%d-%s", f, s, oi, bld), Builder: bld, Fanout: f,
								Universe: u, Entries: ord, Links: links(ord), Open: "reify", Mode: "sets",
								Script: fullDirScript(12, allHows)}
							if oi%2 == 1 || (bld != "sharded" && len(s)%2 == 1) {
								dc.Open = "lsreify" // every other case through a link system that reifies what it loads
							}
							if err := runDirCase(dc, tr); err != nil {
								return err
							}
						}
					}
				}
			}
		case "longnames":
			// entry names beyond 255 bytes that agree on their first 255..300 bytes, next to short ones
			for _, f := range parseInts(*fanouts) {
				var u []string
				for i := 0; i < 4; i++ {
					u = append(u, fmt.Sprintf("%0300d", i), strings.Repeat("ü", 140)+fmt.Sprintf("-%d", i))
				}
				u = append(u, "short", fmt.Sprintf("%0255d", 7), fmt.Sprintf("%0256d", 8), "absent-"+strings.Repeat("y", 300))
				ids := []int{1, 2, 3, 4, 5, 6, 7, 8, 9, 10, 11}
				for _, bld := range []string{"sharded", "boxo", "dir"} {
					dc := &DirCase{Fam: "dir", ID: fmt.Sprintf("longnames-%d-%s", f, bld), Builder: bld, Fanout: f, Universe: u, Entries: ids,
						Links: links(ids), Open: "reify", Mode: "sets", Script: fullDirScript(len(u), []string{"string", "native"})}
					if err := runDirCase(dc, tr); err != nil {
						return err
					}
				}
			}
		case "numeric":
			// entry names that read as integers (with sign, leading zeros) next to near-misses: a path segment made of
			// such a name is still a *name*, for every lookup entry point, builder and directory form
			u := []string{"0", "7", "12", "2024", "007", "-1", "+5", "9223372036854775807", "1e3", "12abc", "0x10", "99", "-0", "١٢"}
			ids := []int{1, 2, 3, 4, 5, 6, 7, 8, 9, 10, 11}
			for _, f := range parseInts(*fanouts) {
				for _, bld := range []string{"sharded", "boxo", "dir", "quick"} {
					dc := &DirCase{Fam: "dir", ID: fmt.Sprintf("numeric-%d-%s", f, bld), Builder: bld, Fanout: f, Universe: u, Entries: ids,
						Links: links(ids), Open: "reify", Mode: "sets", Script: fullDirScript(len(u), allHows)}
					if err := runDirCase(dc, tr); err != nil {
						return err
					}
				}
			}
		case "coldlookups":
			// every name looked up on a *fresh* node (cold shard cache): what one lookup fetches must not depend on
			// what earlier lookups happened to cache
			for fi, f := range parseInts(*fanouts) {
				u := mineUniverse(f, styles[fi%len(styles)])
				for _, s := range subsets() {
					for _, bld := range []string{"sharded", "boxo"} {
						if bld == "boxo" && len(s) == 0 {
							continue
						}
						dc := &DirCase{Fam: "dir", ID: fmt.Sprintf("cold-%d-%v-%s", f, s, bld), Builder: bld, Fanout: f,
							Universe: u, Entries: s, Links: links(s), Open: "reify", Mode: "sets"}
						for id := 1; id <= len(u); id++ {
							dc.Script = append(dc.Script, []any{"reopen"}, []any{"lookup", id, allHows[id%len(allHows)]})
						}
						if err := runDirCase(dc, tr); err != nil {
							return err
						}
					}
				}
			}
		case "boxo":
			// reference-written HAMTs holding every subset
			for fi, f := range parseInts(*fanouts) {
				u := mineUniverse(f, styles[fi%len(styles)])
				for _, s := range subsets() {
					if len(s) == 0 {
						continue
					}
					dc := &DirCase{Fam: "dir", ID: fmt.Sprintf("boxo-%d-%v", f, s), Builder: "boxo", Fanout: f,
						Universe: u, Entries: s, Links: links(s), Open: []string{"reify", "lsreify"}[len(s)%2], Mode: "sets",
						Script: fullDirScript(10, []string{"string", "native"})}
					if err := runDirCase(dc, tr); err != nil {
						return err
					}
				}
			}
		case "hist":
			fl := parseInts(*fanouts)
			i := 0
			return readJSONLines(*cases, func(raw json.RawMessage) error {
				var hist [][]any
				if err := json.Unmarshal(raw, &hist); err != nil {
					return err
				}
				f := fl[i%len(fl)]
				u := mineUniverse(f, styles[i%len(styles)])
				dc := &DirCase{Fam: "dir", ID: fmt.Sprintf("hist-%d-%d", f, i), Builder: "boxo", Fanout: f, Universe: u,
					Hist: hist, Open: "reify", Mode: "hist", Script: fullDirScript(10, []string{"string"})}
				i++
				return runDirCase(dc, tr)
			})
		case "faults", "preload", "preload-es":
			emptied := *what == "preload-es" // own-built directories additionally hold an emptied child shard
			if emptied {
				*what = "preload"
			}
			for fi, f := range parseInts(*fanouts) {
				for _, style := range stylesFor(fi) {
					u := mineUniverse(f, style)
					for _, s := range subsets() {
						// learn the shard count of this set
						st := NewStore()
						probe := &DirCase{Builder: "sharded", Fanout: f, Universe: u, Entries: s, Links: links(s)}
						root, _, err := buildDir(st, probe, putTargets(st))
						if err != nil {
							return err
						}
						dw, err := walkDir(st, root, u)
						if err != nil {
							return err
						}
						nsh := len(dw.Shards)
						for m := 0; m <= nsh; m++ {
							if m == 1 || (m == 0 && *what == "faults") {
								continue
							}
							for _, bld := range []string{"sharded", "boxo"} {
								dc := &DirCase{Fam: "dir", ID: fmt.Sprintf("%s-%d-%s-%v-m%d-%s", *what, f, style, s, m, bld), Builder: bld, Fanout: f,
									Universe: u, Entries: s, Links: links(s), Open: "reify", Mode: "fault", NotFound: m%3 == 0, Timeout: m%3 == 1,
									ErrKind: map[bool]string{true: "eofwrap"}[bld == "boxo"]}
								if bld == "boxo" && len(s) == 0 {
									continue
								}
								if m > 0 {
									dc.Missing = []int{m}
								}
								if *what == "preload" {
									dc.Open = "preload"
									dc.EmptyShard = emptied && bld == "sharded"
									if emptied && bld != "sharded" {
										continue
									}
									if m == 0 {
										dc.Mode = "seq"
									}
									dc.Script = [][]any{{"length"}, {"iter", "map"}}
								} else {
									dc.Script = append(fullDirScript(10, allHows), []any{"reopen"}, []any{"length"},
										[]any{"iter", "map"}, []any{"lookup", 1, "string"}, []any{"lookup", 4, "string"}, []any{"lookup", 6, "string"}, []any{"lookup", 7, "string"}, []any{"lookup", 8, "string"},
										// the shard comes back: the same node must now see every entry
										[]any{"heal"}, []any{"iter", "map"}, []any{"lookup", 5, "string"}, []any{"lookup", 8, "string"}, []any{"length"})
								}
								if err := runDirCase(dc, tr); err != nil {
									return err
								}
							}
						}
						if *what == "faults" && nsh > 1 {
							for kth := 1; kth < nsh; kth++ {
								dc := &DirCase{Fam: "dir", ID: fmt.Sprintf("failat-%d-%s-%v-k%d", f, style, s, kth), Builder: "sharded", Fanout: f,
									Universe: u, Entries: s, Links: links(s), Open: "reify", Mode: "fault", FailAt: kth, NotFound: kth%2 == 0,
									Script: [][]any{{"iter", "map"}, {"length"}, {"iter", "native"}}}
								if err := runDirCase(dc, tr); err != nil {
									return err
								}
							}
						}
					}
				}
			}
		case "seq":
			// cold iteration / length / preload order (C20), repeated
			for fi, f := range parseInts(*fanouts) {
				u := mineUniverse(f, styles[fi%len(styles)])
				for _, s := range subsets() {
					for _, first := range []string{"iter-map", "iter-native", "length", "preload"} {
						for _, bld := range []string{"sharded", "boxo"} {
							if bld == "boxo" && len(s) == 0 {
								continue
							}
							dc := &DirCase{Fam: "dir", ID: fmt.Sprintf("seq-%d-%v-%s-%s", f, s, first, bld), Builder: bld, Fanout: f,
								Universe: u, Entries: s, Links: links(s), Open: "reify", Mode: "seq"}
							switch first {
							case "iter-map":
								dc.Script = [][]any{{"iter", "map"}, {"length"}, {"iter", "native"}}
							case "iter-native":
								dc.Script = [][]any{{"iter", "native"}, {"iter", "map"}}
							case "length":
								dc.Script = [][]any{{"length"}, {"iter", "map"}}
							case "preload":
								dc.Open = "preload"
								dc.Script = [][]any{{"length"}}
							}
							if err := runDirCase(dc, tr); err != nil {
								return err
							}
						}
					}
				}
			}
		case "raw":
			// every link list up to maxLen over names {absent, "", "a", "b"} x 3 targets,
			// viewed as a plain UnixFS directory and as a generic link map
			opts := []RawLink{{Absent: true}, {Name: ""}, {Name: "a"}, {Name: "b"}}
			u := []string{"a", "b", "c", ""}
			var lists [][]RawLink
			var rec func(cur []RawLink)
			rec = func(cur []RawLink) {
				lists = append(lists, append([]RawLink(nil), cur...))
				if len(cur) == *maxLen {
					return
				}
				for _, o := range opts {
					// link target: position-dependent so that duplicates are distinguishable
					o.Link = len(cur) % 3
					rec(append(cur, o))
					if len(cur) < 2 {
						o.Link = (len(cur) + 1) % 3
						rec(append(cur, o))
					}
				}
			}
			rec(nil)
			for i, l := range lists {
				for _, rt := range []int{1, -1} {
					dc := &DirCase{Fam: "dir", ID: fmt.Sprintf("raw-%d-%d", i, rt), Builder: "raw", Raw: l, RawType: rt,
						Universe: u, Open: "reify", Mode: "raw", Script: fullDirScript(4, allHows)}
					if len(l) == 0 {
						dc.Raw = []RawLink{}
					}
					if err := runDirCase(dc, tr); err != nil {
						return err
					}
				}
			}
		case "random":
			for i := 0; i < *count; i++ {
				f := []int{8, 16, 32, 64, 128, 256, 512, 1024}[r.Intn(8)]
				n := r.Intn(60)
				style := append(styles, "rawbytes", "long")[r.Intn(len(styles)+2)]
				base := r.Intn(100000)
				var u []string
				for j := 0; j < n+3; j++ {
					u = append(u, nameTemplate(style, base+j))
				}
				ids := r.Perm(n)
				for j := range ids {
					ids[j]++
				}
				bld := []string{"sharded", "dir", "quick", "boxo"}[r.Intn(4)]
				if bld == "boxo" && n == 0 {
					bld = "sharded"
				}
				dc := &DirCase{Fam: "dir", ID: fmt.Sprintf("random-%d-%d", *seed, i), Builder: bld, Fanout: f, Universe: u,
					Entries: ids, Links: links(ids), Open: []string{"reify", "preload"}[r.Intn(2)], Mode: "random"}
				for j := 0; j < 12 && j < len(u); j++ {
					dc.Script = append(dc.Script, []any{"lookup", 1 + r.Intn(len(u)), allHows[r.Intn(len(allHows))]})
				}
				dc.Script = append(dc.Script, []any{"iter", "map"}, []any{"length"}, []any{"iter", "native"})
				if err := runDirCase(dc, tr); err != nil {
					return err
				}
			}
		case "big":
			for i := 0; i < *count; i++ {
				bc := &BigDirCase{Fam: "bigdir", ID: fmt.Sprintf("big-%d-%d", *seed, i), Seed: r.Int63(),
					Builder: []string{"dir", "sharded", "quick", "boxo"}[i%4], Fanout: []int{8, 16, 32, 64, 128, 256, 512, 1024}[r.Intn(8)],
					Style: styles[r.Intn(len(styles))]}
				switch i % 3 {
				case 0: // straddle the auto-shard estimate: names of 160 bytes, 36-byte CIDs
					bc.NameLen = 160
					bc.N = 1337 + r.Intn(4)
				case 1:
					bc.N = 200 + r.Intn(2800)
				default:
					bc.NameLen = 60 + r.Intn(80)
					bc.N = 262144/(bc.NameLen+36) - 2 + r.Intn(5)
				}
				if err := runBigDirCase(bc, tr); err != nil {
					return err
				}
			}
		default:
			return fmt.Errorf("unknown -what %q", *what)
		}
		return nil
	}
}
