package main

import (
	"crypto/sha256"
	"encoding/hex"
	"encoding/json"
	"flag"
	"fmt"
	"io"
	"math/rand"
	"runtime/debug"
	"sort"
	"strings"
	"testing"
	"time"

	pb "github.com/ipfs/boxo/ipld/unixfs/pb"
	"github.com/ipfs/go-cid"
	"github.com/ipfs/go-unixfsnode"
	"github.com/ipfs/go-unixfsnode/testutil"
)

// FixtureCase: one call of an exported fixture generator.
type FixtureCase struct {
	Fam      string `json:"fam"`
	ID       string `json:"id"`
	Gen      string `json:"gen"` // file | dir | dir-custom | gendir | builddir | wrap
	Seed     int64  `json:"seed"`
	Size     int    `json:"size"`
	Bitwidth int    `json:"bitwidth"`
	Sharded  bool   `json:"sharded"`
	Excl     bool   `json:"excl"`
	WrapPath string `json:"wrappath"`
	Many     int    `json:"many"` // dir-custom: number of children (large values make name collisions likely)
	// Avail > 0 (file generator): the random source is finite and ends after Avail-1 bytes (a source may run dry early)
	Avail int `json:"avail"`
}

// FTree is a described or stored entry tree as the trace carries it.
type FTree struct {
	Name  string  `json:"name"`
	Path  string  `json:"path"`
	Kind  string  `json:"kind"` // file | dir
	Root  string  `json:"root"`
	Hash  string  `json:"hash"` // sha256 of the file content
	Kids  []FTree `json:"kids"`
	Tsize int     `json:"tsize"`
}

type fixtureT struct{ failed []string }

func (t *fixtureT) Errorf(format string, args ...interface{}) {
	t.failed = append(t.failed, fmt.Sprintf(format, args...))
}
func (t *fixtureT) FailNow() {
	panic(panicErr{"fixture generator failed: " + strings.Join(t.failed, "; ")})
}

func lastSeg(p string) string {
	if i := strings.LastIndex(p, "/"); i >= 0 {
		return p[i+1:]
	}
	return p
}

func hashOf(b []byte) string {
	h := sha256.Sum256(b)
	return hex.EncodeToString(h[:8])
}

func describe(de testutil.DirEntry) FTree {
	t := FTree{Name: lastSeg(de.Path), Path: de.Path, Root: de.Root.String(), Kids: []FTree{}, Tsize: int(de.TSize)}
	if de.Children == nil && (de.Content != nil || de.Root.Prefix().Codec == cid.Raw) {
		t.Kind = "file"
		t.Hash = hashOf(de.Content)
		return t
	}
	t.Kind = "dir"
	for _, c := range de.Children {
		t.Kids = append(t.Kids, describe(c))
	}
	sort.SliceStable(t.Kids, func(i, j int) bool { return t.Kids[i].Name < t.Kids[j].Name })
	return t
}

// dupSiblingsDE: does some directory of the described tree repeat a child name?  Breadth first with a budget, so that a
// description that doubles at every level is recognised at its first level.
func dupSiblingsDE(de testutil.DirEntry, _ int) bool {
	return firstDupLevel(de).Children != nil
}

func firstDupLevel(de testutil.DirEntry) testutil.DirEntry {
	queue := []testutil.DirEntry{de}
	for n := 0; len(queue) > 0 && n < 100000; n++ {
		d := queue[0]
		queue = queue[1:]
		seen := map[string]bool{}
		for _, c := range d.Children {
			nm := lastSeg(c.Path)
			if seen[nm] {
				return d
			}
			seen[nm] = true
		}
		queue = append(queue, d.Children...)
	}
	return testutil.DirEntry{}
}

func dupSiblings(t FTree) bool {
	seen := map[string]bool{}
	for _, k := range t.Kids {
		if seen[k.Name] || dupSiblings(k) {
			return true
		}
		seen[k.Name] = true
	}
	return false
}

// describeRB: the tree testutil.ToDirEntryFrom read back (directories always carry a non-nil child list there)
func describeRB(de testutil.DirEntry) FTree {
	t := FTree{Name: lastSeg(de.Path), Path: de.Path, Root: de.Root.String(), Kids: []FTree{}}
	if de.Children == nil {
		t.Kind = "file"
		t.Hash = hashOf(de.Content)
		return t
	}
	t.Kind = "dir"
	for _, c := range de.Children {
		t.Kids = append(t.Kids, describeRB(c))
	}
	sort.SliceStable(t.Kids, func(i, j int) bool { return t.Kids[i].Name < t.Kids[j].Name })
	return t
}

// withT runs f with a *testing.T on a goroutine of its own.  The T does not belong to a running test (the testing
// package offers no way to make one outside "go test"): a failed requirement panics inside the testing package
// when it tries to log, which is taken - like Goexit and t.Failed() - for "failed"; a passing f never touches the T.
// The message carries where the failure was raised.
// rbHung: a read-back or comparison of this process never returned (its goroutine is abandoned); the helpers are
// not called again in this process - the case that hung is the violation, the later ones are marked "skip"
var rbHung bool

func withT(f func(t *testing.T)) (ok bool, msg string) {
	if rbHung {
		return false, "skip"
	}
	t := &testing.T{}
	done := make(chan struct{})
	finished := false
	go func() {
		defer close(done)
		defer func() {
			if r := recover(); r != nil {
				for _, ln := range strings.Split(string(debug.Stack()), "\n") {
					if strings.Contains(ln, "go-unixfsnode") || strings.Contains(ln, "/testutil/") {
						msg += strings.TrimSpace(ln) + "; "
					}
				}
			}
		}()
		f(t)
		finished = true
	}()
	select {
	case <-done:
	case <-time.After(60 * time.Second):
		rbHung = true
		return false, "hang"
	}
	if len(msg) > 600 {
		msg = msg[:600]
	}
	return finished && !t.Failed(), msg
}

// mutateEntry: copies of a described tree with one thing wrong (a root, a content byte, a child dropped, a child
// renamed), for the comparison helper to tell apart from the original
func mutateEntry(de testutil.DirEntry) []testutil.DirEntry {
	var out []testutil.DirEntry
	var clone func(d testutil.DirEntry) testutil.DirEntry
	clone = func(d testutil.DirEntry) testutil.DirEntry {
		c := d
		if d.Content != nil {
			c.Content = append([]byte{}, d.Content...)
		}
		if d.Children != nil {
			c.Children = make([]testutil.DirEntry, len(d.Children))
			for i := range d.Children {
				c.Children[i] = clone(d.Children[i])
			}
		}
		return c
	}
	// the deepest-first leaf and the last child of the root
	leaf := func(d *testutil.DirEntry) *testutil.DirEntry {
		for len(d.Children) > 0 {
			d = &d.Children[0]
		}
		return d
	}
	m1 := clone(de)
	if l := leaf(&m1); len(l.Content) > 0 {
		l.Content[len(l.Content)/2] ^= 1
		out = append(out, m1)
	}
	m2 := clone(de)
	other := rawCid([]byte("some other block"), cid.Raw)
	leaf(&m2).Root = other
	out = append(out, m2)
	if len(de.Children) > 0 {
		m3 := clone(de)
		m3.Children = m3.Children[:len(m3.Children)-1]
		out = append(out, m3)
		m4 := clone(de)
		m4.Children[len(m4.Children)-1].Path += "x"
		out = append(out, m4)
		m5 := clone(de)
		m5.Children = append(m5.Children, clone(m5.Children[0]))
		out = append(out, m5)
	}
	return out
}

// stored reads the DAG back independently of the library under test.
func storedTree(st *Store, c cid.Cid, name, path string) (FTree, error) {
	t := FTree{Name: name, Path: path, Root: c.String(), Kids: []FTree{}}
	isFile := c.Prefix().Codec == cid.Raw
	var pnLinks []struct {
		name string
		c    cid.Cid
	}
	if !isFile {
		b, ok := st.Get(c)
		if !ok {
			return t, fmt.Errorf("walker: %s absent", c)
		}
		pn, d, err := decodePB(c, b)
		if err != nil || d == nil {
			return t, fmt.Errorf("walker: undecodable block")
		}
		switch d.GetType() {
		case pb.Data_File, pb.Data_Raw:
			isFile = true
		case pb.Data_Directory:
			for _, l := range pn.Links() {
				pnLinks = append(pnLinks, struct {
					name string
					c    cid.Cid
				}{l.Name, l.Cid})
			}
		case pb.Data_HAMTShard:
			var rec func(c cid.Cid) error
			rec = func(c cid.Cid) error {
				bb, ok := st.Get(c)
				if !ok {
					return fmt.Errorf("walker: shard absent")
				}
				pn, d, err := decodePB(c, bb)
				if err != nil || d == nil {
					return fmt.Errorf("walker: bad shard")
				}
				if d.GetType() != pb.Data_HAMTShard || d.GetFanout() == 0 {
					return fmt.Errorf("walker: not a shard")
				}
				pad := len(fmt.Sprintf("%X", d.GetFanout()-1))
				isShard := func(c cid.Cid) bool {
					if bb, ok := st.Get(c); ok && c.Prefix().Codec == cid.DagProtobuf {
						if _, dd, err := decodePB(c, bb); err == nil && dd != nil && dd.GetType() == pb.Data_HAMTShard {
							return true
						}
					}
					return false
				}
				for _, l := range pn.Links() {
					if len(l.Name) < pad {
						return fmt.Errorf("walker: short link name")
					}
					// a link named by the prefix alone is a child shard - unless what it points at is not a shard:
					// then it is an entry whose name is empty (which the generators must never produce)
					if len(l.Name) == pad && isShard(l.Cid) {
						if err := rec(l.Cid); err != nil {
							return err
						}
					} else {
						pnLinks = append(pnLinks, struct {
							name string
							c    cid.Cid
						}{l.Name[pad:], l.Cid})
					}
				}
				return nil
			}
			if err := rec(c); err != nil {
				return t, err
			}
		default:
			return t, fmt.Errorf("walker: unexpected type %v", d.GetType())
		}
	}
	if isFile {
		fw, err := walkFile(st, c)
		if err != nil {
			return t, err
		}
		t.Kind, t.Hash = "file", hashOf(fw.Content)
		return t, nil
	}
	t.Kind = "dir"
	for _, l := range pnLinks {
		k, err := storedTree(st, l.c, l.name, path+"/"+l.name)
		if err != nil {
			return t, err
		}
		t.Kids = append(t.Kids, k)
	}
	sort.SliceStable(t.Kids, func(i, j int) bool { return t.Kids[i].Name < t.Kids[j].Name })
	return t, nil
}

func runFixtureCase(fc *FixtureCase, tr *Tr) error {
	st := NewStore()
	ls := st.LinkSystem()
	rnd := rand.New(rand.NewSource(fc.Seed))
	tr.Emit(M{"ev": "reset", "case": caseString(fc)})
	var de testutil.DirEntry
	var err error
	t := &fixtureT{}
	composed := false // the generator promises child.Path = parent.Path + "/" + name
	pm := guard(func() {
		switch fc.Gen {
		case "file":
			var src io.Reader = rnd
			if fc.Avail > 0 {
				src = io.LimitReader(rnd, int64(fc.Avail-1))
			}
			de, err = testutil.UnixFSFile(*ls, fc.Size, testutil.WithRandReader(src))
		case "dir":
			composed = true
			opts := []testutil.Option{testutil.WithRandReader(rnd)}
			if fc.Bitwidth > 0 {
				opts = append(opts, testutil.WithShardBitwidth(fc.Bitwidth))
			}
			de, err = testutil.UnixFSDirectory(*ls, fc.Size, opts...)
		case "dir-named":
			// a directory generated below a caller-chosen path (the documented way to nest generators)
			composed = true
			opts := []testutil.Option{testutil.WithRandReader(rnd), testutil.WithDirname("/top")}
			if fc.Bitwidth > 0 {
				opts = append(opts, testutil.WithShardBitwidth(fc.Bitwidth))
			}
			de, err = testutil.UnixFSDirectory(*ls, fc.Size, opts...)
		case "dir-custom":
			composed = true
			n := 0
			opts := []testutil.Option{testutil.WithRandReader(rnd), testutil.WithChildGenerator(func(name string) (*testutil.DirEntry, error) {
				limit := 1 + fc.Size%7
				if fc.Many > 0 {
					limit = fc.Many
				}
				if n >= limit {
					return nil, nil
				}
				n++
				f, err := testutil.UnixFSFile(*ls, 100+n, testutil.WithRandReader(rnd))
				if err != nil {
					return nil, err
				}
				f.Path = name
				return &f, nil
			})}
			if fc.Bitwidth > 0 {
				opts = append(opts, testutil.WithShardBitwidth(fc.Bitwidth))
			}
			de, err = testutil.UnixFSDirectory(*ls, fc.Size, opts...)
		case "gendir":
			composed = true
			de = testutil.GenerateDirectory(t, ls, rnd, fc.Size, fc.Sharded)
		case "builddir":
			var kids []testutil.DirEntry
			for i := 0; i < 1+fc.Size%5; i++ {
				f := testutil.GenerateFile(t, ls, rnd, 50+i)
				f.Path = fmt.Sprintf("kid-%d", i)
				kids = append(kids, f)
			}
			de = testutil.BuildDirectory(t, ls, kids, fc.Sharded)
		case "wrap":
			content := testutil.GenerateFile(t, ls, rnd, fc.Size)
			de = testutil.WrapContent(&testing.T{}, rnd, ls, content, fc.WrapPath, fc.Excl)
		}
	})
	ev := M{"ev": "fixture", "gen": fc.Gen, "e": "nil", "composed": composed, "walkOK": true, "info": "",
		"desc": FTree{Kind: "none", Kids: []FTree{}}, "stored": FTree{Kind: "none", Kids: []FTree{}}}
	if pm != nil {
		ev["e"] = "panic"
		ev["info"] = pm.Error()
		tr.Emit(ev)
		return nil
	}
	if err != nil {
		ev["e"] = "err"
		ev["info"] = err.Error()
		tr.Emit(ev)
		return nil
	}
	if dupSiblingsDE(de, 0) {
		// a repeated sibling name (found top-down, level by level): with repeated sub-directories the description doubles
		// at every level of nesting - it is recorded one level deep only, which is all Inv_C19_Siblings needs
		sh := FTree{Name: lastSeg(de.Path), Path: de.Path, Kind: "dir", Root: de.Root.String(), Kids: []FTree{}}
		for _, c := range firstDupLevel(de).Children {
			k := "file"
			if c.Children != nil {
				k = "dir"
			}
			sh.Kids = append(sh.Kids, FTree{Name: lastSeg(c.Path), Path: c.Path, Kind: k, Root: c.Root.String(), Kids: []FTree{}})
		}
		sort.SliceStable(sh.Kids, func(i, j int) bool { return sh.Kids[i].Name < sh.Kids[j].Name })
		ev["desc"], ev["stored"], ev["tde"], ev["shallow"] = sh, sh, sh, true
		ev["rb"], ev["cmp"], ev["neg"] = "skip", "skip", []string{}
		tr.Emit(ev)
		return nil
	}
	desc := describe(de)
	ev["desc"] = desc
	stored, werr := storedTree(st, de.Root, desc.Name, de.Path)
	if werr != nil {
		ev["walkOK"] = false
		ev["info"] = werr.Error()
	} else {
		ev["stored"] = stored
	}
	// the library's own read-back (testutil.ToDirEntryFrom over a link system whose NodeReifier is unixfsnode.Reify, as the
	// downstream test suites use it) and its comparison helper
	rls := *st.LinkSystem()
	rls.NodeReifier = unixfsnode.Reify
	var rb testutil.DirEntry
	ev["rb"], ev["cmp"], ev["neg"] = "failed", "skip", []string{}
	if dupSiblings(desc) {
		// the description repeats a sibling name (reported by Inv_C19_Siblings): the comparison helper pairs every child
		// with every same-named one and takes time exponential in the nesting depth - the helpers are not run on it
		ev["rb"] = "skip"
		tr.Emit(ev)
		return nil
	}
	ev["tde"] = FTree{Kind: "none", Kids: []FTree{}}
	if ok, msg := withT(func(t *testing.T) { rb = testutil.ToDirEntryFrom(t, rls, de.Root, de.Path, true) }); !ok {
		ev["info"] = msg
		if msg == "skip" || msg == "hang" {
			ev["rb"] = msg
		}
	} else {
		ev["rb"] = "ok"
		ev["tde"] = describeRB(rb)
		ev["cmp"] = "skip"
		if composed || fc.Gen == "file" {
			ok1, msg1 := withT(func(t *testing.T) { testutil.CompareDirEntries(t, de, rb) })
			ok2, msg2 := withT(func(t *testing.T) { testutil.CompareDirEntries(t, rb, de) })
			ev["cmp"] = map[bool]string{true: "pass", false: "fail"}[ok1 && ok2]
			if msg1 == "hang" || msg2 == "hang" {
				ev["cmp"] = "hang"
			}
			if !ok1 || !ok2 {
				ev["info"] = msg1 + msg2
			}
		}
		neg := []string{}
		for _, m := range mutateEntry(de) {
			m := m
			okm, _ := withT(func(t *testing.T) { testutil.CompareDirEntries(t, de, m) })
			neg = append(neg, map[bool]string{true: "pass", false: "fail"}[okm])
		}
		ev["neg"] = neg
	}
	tr.Emit(ev)
	return nil
}

func init() {
	caseRunners["fixture"] = func(b []byte, tr *Tr) error {
		var fc FixtureCase
		if err := json.Unmarshal(b, &fc); err != nil {
			return err
		}
		return runFixtureCase(&fc, tr)
	}
	cmds["fixture-gen"] = func(args []string) error {
		fs := flag.NewFlagSet("fixture-gen", flag.ExitOnError)
		seed := fs.Int64("seed", 1, "seed")
		count := fs.Int("count", 10, "seeds per generator configuration")
		out := fs.String("out", "", "trace output")
		fs.Parse(args)
		tr, err := NewTr(*out)
		if err != nil {
			return err
		}
		defer tr.Close()
		r := rand.New(rand.NewSource(*seed))
		sizes := []int{64, 300, 5000, 40000, 300000} // below 32 bytes targetSize/16 is < 2 and the directory generators cannot draw a non-zero file size (they loop or panic): outside C19
		for i := 0; i < *count; i++ {
			for _, sz := range sizes {
				mk := func(gen string, mod func(fc *FixtureCase)) error {
					fc := &FixtureCase{Fam: "fixture", Gen: gen, Seed: r.Int63(), Size: sz}
					if mod != nil {
						mod(fc)
					}
					fc.ID = fmt.Sprintf("%s-%d-%d-bw%d-%v-%v-m%d-%q-a%d", gen, fc.Seed, sz, fc.Bitwidth, fc.Sharded, fc.Excl, fc.Many, fc.WrapPath, fc.Avail)
					return runFixtureCase(fc, tr)
				}
				steps := []func() error{
					func() error { return mk("file", nil) },
					// a random source that runs dry before / exactly at / just after the requested size
					func() error { return mk("file", func(fc *FixtureCase) { fc.Avail = 1 + sz*3/5 }) },
					func() error { return mk("file", func(fc *FixtureCase) { fc.Avail = 1 + sz - 1 + i%3 }) },
					func() error { return mk("dir", nil) },
					func() error { return mk("dir", func(fc *FixtureCase) { fc.Bitwidth = 3 }) },
					func() error { return mk("dir-custom", nil) },
					func() error { return mk("dir-custom", func(fc *FixtureCase) { fc.Bitwidth = 2 }) },
					func() error {
						if sz != 300 {
							return nil
						}
						return mk("dir-custom", func(fc *FixtureCase) { fc.Many = 220 })
					},
					func() error { return mk("gendir", nil) },
					func() error { return mk("gendir", func(fc *FixtureCase) { fc.Sharded = true }) },
					func() error { return mk("builddir", nil) },
					func() error { return mk("builddir", func(fc *FixtureCase) { fc.Sharded = true }) },
					func() error {
						return mk("wrap", func(fc *FixtureCase) { fc.WrapPath = "/want/it/here"; fc.Excl = true })
					},
					func() error { return mk("wrap", func(fc *FixtureCase) { fc.WrapPath = "a/b"; fc.Size = sz % 5000 }) },
					func() error {
						// wrap paths that ipld path rules normalise: empty, only slashes, trailing and doubled slashes
						p := []string{"", "/", "a/b/", "a//b", "//a"}[i%5]
						return mk("wrap", func(fc *FixtureCase) { fc.WrapPath = p; fc.Excl = sz%2 == 0; fc.Size = 64 + sz%3000 })
					},
					func() error { return mk("dir-named", nil) },
					func() error { return mk("dir-named", func(fc *FixtureCase) { fc.Bitwidth = 3 }) },
				}
				for _, s := range steps {
					if err := s(); err != nil {
						return err
					}
				}
			}
		}
		return nil
	}
}
