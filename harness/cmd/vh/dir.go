package main

import (
	"context"
	"encoding/binary"
	"encoding/hex"
	"errors"
	"fmt"
	"github.com/gogo/protobuf/proto"
	"github.com/ipfs/go-unixfsnode/iter"
	"google.golang.org/protobuf/encoding/protowire"
	"math/bits"
	"os"
	"sort"
	"strconv"
	"strings"

	"github.com/ipfs/boxo/ipld/merkledag"
	bhamt "github.com/ipfs/boxo/ipld/unixfs/hamt"
	pb "github.com/ipfs/boxo/ipld/unixfs/pb"
	"github.com/ipfs/go-cid"
	format "github.com/ipfs/go-ipld-format"
	unixfsnode "github.com/ipfs/go-unixfsnode"
	"github.com/ipfs/go-unixfsnode/data/builder"
	quickbuilder "github.com/ipfs/go-unixfsnode/data/builder/quick"
	dagpb "github.com/ipld/go-codec-dagpb"
	"github.com/ipld/go-ipld-prime"
	"github.com/ipld/go-ipld-prime/datamodel"
	cidlink "github.com/ipld/go-ipld-prime/linking/cid"
	"github.com/ipld/go-ipld-prime/node/basicnode"
	"github.com/ipld/go-ipld-prime/schema"
	"github.com/multiformats/go-multihash"
	"github.com/spaolacci/murmur3"
)

// ---- independent hash digits (MSB-first slices of murmur3-64) ----

func hash64(name string) uint64 {
	h := murmur3.New64()
	h.Write([]byte(name))
	return binary.BigEndian.Uint64(h.Sum(nil))
}

// digitsOf returns the bucket indices of name for a fanout of 2^b, as many
// full digits as 64 bits give.
func digitsOf(name string, b int) []int {
	h := hash64(name)
	var out []int
	for off := 0; off+b <= 64; off += b {
		out = append(out, int((h>>(64-off-b))&((1<<b)-1)))
	}
	return out
}

// ---- raw link lists (C15) ----

type RawLink struct {
	Name   string `json:"name"`
	Absent bool   `json:"absent"`
	Link   int    `json:"link"`
}

// DirCase is one re-executable scenario of the directory family.
type DirCase struct {
	Fam      string           `json:"fam"`
	ID       string           `json:"id"`
	Builder  string           `json:"builder"` // dir | sharded | quick | boxo | raw
	Fanout   int              `json:"fanout"`
	Universe []string         `json:"universe"` // names by id (1-based)
	Entries  []int            `json:"entries"`  // name ids in the order given to the builder
	Links    []int            `json:"links"`    // target id per entry (parallel to Entries)
	Hist     [][]any          `json:"hist"`     // boxo: set/remove/reload history over name ids
	Raw      []RawLink        `json:"raw"`      // raw: hand-assembled link list
	RawType  int              `json:"rawtype"`  // raw: 1 = UnixFS Directory data, -1 = no Data field
	Open     string           `json:"open"`     // reify | preload
	Missing  []int            `json:"missing"`
	FailAt   int              `json:"failat"`
	NotFound bool             `json:"notfound"`
	Mode     string           `json:"mode"`
	Script   [][]any          `json:"script"`
	MixV0    bool             `json:"mixv0"`
	Timeout  bool             `json:"timeout"` // injected load errors report themselves as timeouts
	ErrKind  string           `json:"errkind"` // injected error kind that wins over both: eofwrap | unexpectedeof
	LS       *ipld.LinkSystem `json:"-"`
	// SizeBase > 0: entry i is declared with cumulative size SizeBase+i instead of its target's length
	SizeBase int64 `json:"sizebase"`
	// EmptyShard: the sharded builder's root additionally links (at its lowest unused bucket) to a child shard that holds nothing
	EmptyShard bool   `json:"emptyshard"`
	Hasher     uint64 `json:"hasher"` // sharded builder: multihash code of the name hasher (0 = murmur3)
	// UniverseHex carries the names byte-exactly (JSON strings cannot hold bytes that are not valid UTF-8)
	UniverseHex []string `json:"universehex"` // entries with odd ids point at a CIDv0 (34-byte) target instead of a CIDv1 (36-byte) one
}

const nTargets = 4

func putTargets(st *Store) []cid.Cid {
	var out []cid.Cid
	defer func() { st.targets = out }()
	for j := 0; j < nTargets; j++ {
		b := []byte(fmt.Sprintf("target-block-%d", j))
		if j == 0 {
			b = []byte{} // an entry of cumulative size 0 (an empty file)
		}
		mh, _ := multihash.Sum(b, multihash.SHA2_256, -1)
		c := cid.NewCidV1(cid.Raw, mh)
		st.Put(c, b)
		out = append(out, c)
	}
	return out
}

// v0Target stores an empty dag-pb node and returns its CIDv0 (a 34-byte link).
func v0Target(st *Store) cid.Cid {
	mh, _ := multihash.Sum([]byte{}, multihash.SHA2_256, -1)
	c := cid.NewCidV0(mh)
	st.Put(c, []byte{})
	return c
}

func entryLinks(dc *DirCase, targets []cid.Cid, st *Store) ([]dagpb.PBLink, error) {
	var out []dagpb.PBLink
	for i, id := range dc.Entries {
		t := targets[dc.Links[i]%nTargets]
		if dc.MixV0 && id%2 == 1 {
			t = v0Target(st)
		}
		b, _ := st.Get(t)
		sz := int64(len(b))
		if dc.SizeBase > 0 {
			sz = dc.SizeBase + int64(id) // the declared cumulative size of the entry (what a multi-gigabyte file reports)
		}
		l, err := builder.BuildUnixFSDirectoryEntry(dc.Universe[id-1], sz, cidlink.Link{Cid: t})
		if err != nil {
			return nil, err
		}
		out = append(out, l)
	}
	return out, nil
}

type quickNode struct {
	l  ipld.Link
	sz int64
}

func (q quickNode) Size() (int64, error) { return q.sz, nil }
func (q quickNode) Link() ipld.Link      { return q.l }

// injectEmptyShard rewrites the root of a stored HAMT so that its lowest unused bucket links to a child shard that
// holds nothing (no links, empty bitfield) - a valid-looking directory as left by a writer that removes entries
// without collapsing shards.  The entry set is unchanged.
func injectEmptyShard(st *Store, root cid.Cid) (cid.Cid, uint64, error) {
	b, _ := st.Get(root)
	pn, d, err := decodePB(root, b)
	if err != nil || d == nil || d.GetType() != pb.Data_HAMTShard {
		return root, 0, fmt.Errorf("injectEmptyShard: not a shard (%v)", err)
	}
	fan := int(d.GetFanout())
	pad := len(fmt.Sprintf("%X", fan-1))
	used := map[int]bool{}
	for _, l := range pn.Links() {
		bi, _ := strconv.ParseUint(l.Name[:pad], 16, 32)
		used[int(bi)] = true
	}
	bucket := -1
	for i := 0; i < fan; i++ {
		if !used[i] {
			bucket = i
			break
		}
	}
	if bucket < 0 {
		return root, 0, fmt.Errorf("injectEmptyShard: no free bucket")
	}
	t := pb.Data_HAMTShard
	ht, fo := uint64(0x22), uint64(fan)
	ed, err := proto.Marshal(&pb.Data{Type: &t, Data: []byte{}, HashType: &ht, Fanout: &fo})
	if err != nil {
		return root, 0, err
	}
	empty := merkledag.NodeWithData(ed)
	empty.SetCidBuilder(cid.V1Builder{Codec: cid.DagProtobuf, MhType: multihash.SHA2_256})
	st.Put(empty.Cid(), empty.RawData())
	// set the bucket's bit (the bitfield is a big-endian number, leading zero bytes may be stripped)
	bf := append([]byte{}, d.Data...)
	for len(bf) < bucket/8+1 {
		bf = append([]byte{0}, bf...)
	}
	bf[len(bf)-1-bucket/8] |= 1 << uint(bucket%8)
	d.Data = bf
	nd, err := proto.Marshal(d)
	if err != nil {
		return root, 0, err
	}
	nr := merkledag.NodeWithData(nd)
	nr.SetCidBuilder(cid.V1Builder{Codec: cid.DagProtobuf, MhType: multihash.SHA2_256})
	for _, l := range pn.Links() {
		if err := nr.AddRawLink(l.Name, &format.Link{Name: l.Name, Size: l.Size, Cid: l.Cid}); err != nil {
			return root, 0, err
		}
	}
	if err := nr.AddNodeLink(fmt.Sprintf("%0*X", pad, bucket), empty); err != nil {
		return root, 0, err
	}
	st.Put(nr.Cid(), nr.RawData())
	sz, _ := nr.Size()
	return nr.Cid(), sz, nil
}

// buildDir builds the directory of a case; returns root cid, returned size.
func buildDir(st *Store, dc *DirCase, targets []cid.Cid) (cid.Cid, uint64, error) {
	ls := dc.LS // the link system of the surrounding build, when there is one
	if ls == nil {
		ls = st.LinkSystem()
	}
	switch dc.Builder {
	case "dir", "sharded":
		ents, err := entryLinks(dc, targets, st)
		if err != nil {
			return cid.Undef, 0, err
		}
		var l ipld.Link
		var sz uint64
		if dc.Builder == "dir" {
			l, sz, err = builder.BuildUnixFSDirectory(ents, ls)
		} else {
			hasher := uint64(multihash.MURMUR3X64_64)
			if dc.Hasher != 0 {
				hasher = dc.Hasher
			}
			l, sz, err = builder.BuildUnixFSShardedDirectory(dc.Fanout, hasher, ents, ls)
		}
		if err != nil {
			return cid.Undef, 0, err
		}
		if dc.EmptyShard && dc.Builder == "sharded" {
			c, nsz, err := injectEmptyShard(st, l.(cidlink.Link).Cid)
			if err != nil {
				return cid.Undef, 0, err
			}
			return c, nsz, nil
		}
		return l.(cidlink.Link).Cid, sz, nil
	case "quick":
		var root cid.Cid
		var size uint64
		err := quickbuilder.Store(ls, func(b *quickbuilder.Builder) error {
			m := map[string]quickbuilder.Node{}
			for i, id := range dc.Entries {
				t := targets[dc.Links[i]%nTargets]
				if dc.MixV0 && id%2 == 1 {
					t = v0Target(st)
				}
				bb, _ := st.Get(t)
				m[dc.Universe[id-1]] = quickNode{cidlink.Link{Cid: t}, int64(len(bb))}
			}
			n := b.NewMapDirectory(m)
			root = n.Link().(cidlink.Link).Cid
			s, _ := n.Size()
			size = uint64(s)
			return nil
		})
		return root, size, err
	case "boxo":
		ds := dagServ{st}
		ctx := context.Background()
		sh, err := bhamt.NewShard(ds, dc.Fanout)
		if err != nil {
			return cid.Undef, 0, err
		}
		sh.SetCidBuilder(cid.V1Builder{Codec: cid.DagProtobuf, MhType: multihash.SHA2_256})
		apply := func(op string, id int) error {
			switch op {
			case "set":
				t := targets[id%nTargets]
				b, _ := st.Get(t)
				return sh.SetLink(ctx, dc.Universe[id-1], &format.Link{Cid: t, Size: uint64(len(b))})
			case "remove":
				err := sh.Remove(ctx, dc.Universe[id-1])
				if err != nil && !errors.Is(err, errNotExistOS) {
					return err
				}
				return nil
			case "reload":
				nd, err := sh.Node()
				if err != nil {
					return err
				}
				if err := ds.Add(ctx, nd); err != nil {
					return err
				}
				sh2, err := bhamt.NewHamtFromDag(ds, nd)
				if err != nil {
					return err
				}
				sh2.SetCidBuilder(cid.V1Builder{Codec: cid.DagProtobuf, MhType: multihash.SHA2_256})
				sh = sh2
			}
			return nil
		}
		if len(dc.Hist) == 0 {
			for i, id := range dc.Entries {
				_ = i
				if err := apply("set", id); err != nil {
					return cid.Undef, 0, err
				}
			}
		}
		for _, h := range dc.Hist {
			if err := apply(h[0].(string), num(h[1])); err != nil {
				return cid.Undef, 0, fmt.Errorf("boxo %v: %w", h, err)
			}
		}
		nd, err := sh.Node()
		if err != nil {
			return cid.Undef, 0, err
		}
		if err := ds.Add(ctx, nd); err != nil {
			return cid.Undef, 0, err
		}
		sz, err := nd.Size()
		return nd.Cid(), sz, err
	case "raw":
		return buildRawDir(st, dc, targets)
	}
	return cid.Undef, 0, fmt.Errorf("unknown builder %q", dc.Builder)
}

// ---- independent walker for directories ----

type WSlot struct {
	B    int    `json:"b"`
	T    string `json:"t"`
	Name int    `json:"name"`
	Link int    `json:"link"`
	Idx  int    `json:"idx"`
}
type WShard struct {
	Parent int     `json:"parent"`
	C      int     `json:"c"`
	Slots  []WSlot `json:"slots"`
	Enc    int     `json:"enc"`
	cid    cid.Cid
}
type WPlain struct {
	Name   int  `json:"name"`
	Absent bool `json:"absent"`
	Link   int  `json:"link"`
	Tsize  int  `json:"tsize"`
}

type DirWalk struct {
	Kind    string // plain | hamt | other
	Fanout  int
	Shards  []WShard
	Plain   []WPlain
	classes map[string]int
	cids    []cid.Cid
	nameID  map[string]int
	Tsizes  map[int][]int64 // shard idx -> link tsizes
}

func (dw *DirWalk) classOf(c cid.Cid) int {
	if n, ok := dw.classes[key(c)]; ok {
		return n
	}
	return 0
}
func (dw *DirWalk) addClass(c cid.Cid) int {
	if n, ok := dw.classes[key(c)]; ok {
		return n
	}
	n := len(dw.cids)
	dw.classes[key(c)] = n
	dw.cids = append(dw.cids, c)
	return n
}
func (dw *DirWalk) nid(name string) int {
	if id, ok := dw.nameID[name]; ok {
		return id
	}
	return 0
}

func walkDir(st *Store, root cid.Cid, universe []string) (*DirWalk, error) {
	dw := &DirWalk{classes: map[string]int{}, cids: []cid.Cid{cid.Undef}, nameID: map[string]int{}}
	for i, n := range universe {
		dw.nameID[n] = i + 1
	}
	b, ok := st.Get(root)
	if !ok {
		return nil, fmt.Errorf("walker: root absent")
	}
	pn, d, err := decodePB(root, b)
	if err != nil && pn == nil {
		return nil, err
	}
	if d != nil && d.GetType() == pb.Data_HAMTShard {
		dw.Kind = "hamt"
		dw.Fanout = int(d.GetFanout())
		var rec func(c cid.Cid, parent int) (int, error)
		rec = func(c cid.Cid, parent int) (int, error) {
			bb, ok := st.Get(c)
			if !ok {
				return 0, fmt.Errorf("walker: shard %s absent", c)
			}
			pn, d, err := decodePB(c, bb)
			if err != nil {
				return 0, err
			}
			if d == nil || d.GetType() != pb.Data_HAMTShard {
				return 0, fmt.Errorf("walker: child is not a shard")
			}
			me := len(dw.Shards)
			dw.Shards = append(dw.Shards, WShard{Parent: parent, C: dw.addClass(c), Enc: len(bb), cid: c, Slots: []WSlot{}})
			pad := len(fmt.Sprintf("%X", d.GetFanout()-1))
			for _, l := range pn.Links() {
				if len(l.Name) < pad {
					return 0, fmt.Errorf("walker: short link name %q", l.Name)
				}
				bi, err := strconv.ParseUint(l.Name[:pad], 16, 32)
				if err != nil {
					return 0, err
				}
				if len(l.Name) == pad {
					idx, err := rec(l.Cid, me+1)
					if err != nil {
						return 0, err
					}
					dw.Shards[me].Slots = append(dw.Shards[me].Slots, WSlot{B: int(bi), T: "shard", Link: dw.classOf(l.Cid), Idx: idx + 1})
				} else {
					dw.Shards[me].Slots = append(dw.Shards[me].Slots, WSlot{B: int(bi), T: "val", Name: dw.nid(l.Name[pad:]), Link: dw.addClass(l.Cid)})
				}
			}
			return me, nil
		}
		// shard classes first, in pre-order: do a first pass that only numbers shards
		var number func(c cid.Cid) error
		number = func(c cid.Cid) error {
			bb, ok := st.Get(c)
			if !ok {
				return fmt.Errorf("walker: shard %s absent", c)
			}
			pn, d, err := decodePB(c, bb)
			if err != nil || d == nil {
				return fmt.Errorf("walker: bad shard")
			}
			dw.addClass(c)
			pad := len(fmt.Sprintf("%X", d.GetFanout()-1))
			for _, l := range pn.Links() {
				if len(l.Name) == pad {
					if err := number(l.Cid); err != nil {
						return err
					}
				}
			}
			return nil
		}
		if err := number(root); err != nil {
			return nil, err
		}
		if _, err := rec(root, 0); err != nil {
			return nil, err
		}
		return dw, nil
	}
	// plain directory or generic link map
	dw.Kind = "plain"
	dw.addClass(root)
	dw.Plain = []WPlain{}
	// go-codec-dagpb (not the library under test) distinguishes an absent
	// link name from an empty one, boxo's merkledag does not
	pbb := dagpb.Type.PBNode.NewBuilder()
	if err := dagpb.DecodeBytes(pbb, b); err != nil {
		return nil, err
	}
	pbn := pbb.Build().(dagpb.PBNode)
	li := pbn.Links.Iterator()
	for !li.Done() {
		_, l := li.Next()
		w := WPlain{Link: dw.addClass(l.Hash.Link().(cidlink.Link).Cid)}
		if l.Name.Exists() {
			nm := l.Name.Must().String()
			w.Name = dw.nid(nm)
			if nm == "" {
				w.Name = -1
			}
		} else {
			w.Absent = true
			w.Name = -1
		}
		if l.Tsize.Exists() {
			w.Tsize = int(l.Tsize.Must().Int())
		}
		dw.Plain = append(dw.Plain, w)
	}
	_ = pn
	return dw, nil
}

// ---- running a case ----

func lookupRes(n ipld.Node, err error, dw *DirWalk) (string, int) {
	if err != nil {
		var nsf schema.ErrNoSuchField
		var ne datamodel.ErrNotExists
		if errors.As(err, &nsf) || errors.As(err, &ne) {
			return "notfound", 0
		}
		if _, ok := err.(panicErr); ok {
			return "panic", 0
		}
		return "err", 0
	}
	if n == nil {
		return "nilnode", 0
	}
	l, err := n.AsLink()
	if err != nil {
		return "notlink", 0
	}
	return "found", dw.classOf(l.(cidlink.Link).Cid)
}

type nativeDir interface {
	Lookup(key dagpb.String) dagpb.Link
}

func dpbString(s string) dagpb.String {
	nb := dagpb.Type.String.NewBuilder()
	nb.AssignString(s)
	return nb.Build().(dagpb.String)
}

func runDirCase(dc *DirCase, tr *Tr) error {
	if len(dc.UniverseHex) == len(dc.Universe) && len(dc.Universe) > 0 {
		for i, h := range dc.UniverseHex {
			if b, err := hex.DecodeString(h); err == nil {
				dc.Universe[i] = string(b)
			}
		}
	} else {
		dc.UniverseHex = make([]string, len(dc.Universe))
		for i, n := range dc.Universe {
			dc.UniverseHex[i] = hex.EncodeToString([]byte(n))
		}
	}
	st := NewStore()
	targets := putTargets(st)
	root, size, err := buildDir(st, dc, targets)
	if err != nil {
		if dc.Builder == "boxo" || dc.Builder == "raw" {
			return fmt.Errorf("build %s: %w", dc.ID, err)
		}
		// this library's builder refuses a set of distinctly named entries: a finding about the builder, not a harness fault
		tr.Emit(M{"ev": "reset", "case": caseString(dc)})
		tr.Emit(M{"ev": "dir", "kind": "unwalkable", "F": dc.Fanout, "S": []WShard{}, "plain": []WPlain{}, "expect": [][]int{},
			"digits": [][]int{}, "missing": []int{}, "entryC": []int{}, "mode": dc.Mode, "size": 0, "builder": dc.Builder,
			"rootC": 0, "nuniv": len(dc.Universe), "walkErr": "builder error: " + err.Error()})
		return nil
	}
	dw, err := walkDir(st, root, dc.Universe)
	if err != nil {
		if dc.Builder == "raw" {
			return err
		}
		// the independent walker cannot read what a builder stored: that is itself a finding about the
		// stored directory (not a harness fault), recorded as an unwalkable directory
		tr.Emit(M{"ev": "reset", "case": caseString(dc)})
		tr.Emit(M{"ev": "dir", "kind": "unwalkable", "F": dc.Fanout, "S": []WShard{}, "plain": []WPlain{}, "expect": [][]int{},
			"digits": [][]int{}, "missing": []int{}, "entryC": []int{}, "mode": dc.Mode, "size": size, "builder": dc.Builder,
			"rootC": 0, "nuniv": len(dc.Universe), "walkErr": err.Error()})
		return nil
	}
	entryC := []int{}
	for _, t := range targets {
		entryC = append(entryC, dw.addClass(t))
	}
	tr.Emit(M{"ev": "reset", "case": caseString(dc)})
	// the logical entry set the harness supplied
	expect := [][]int{}
	switch dc.Builder {
	case "boxo":
		cur := map[int]int{}
		if len(dc.Hist) == 0 {
			for _, id := range dc.Entries {
				cur[id] = id % nTargets
			}
		}
		for _, h := range dc.Hist {
			id := num(h[1])
			switch h[0].(string) {
			case "set":
				cur[id] = id % nTargets
			case "remove":
				delete(cur, id)
			}
		}
		ids := []int{}
		for id := range cur {
			ids = append(ids, id)
		}
		sort.Ints(ids)
		for _, id := range ids {
			expect = append(expect, []int{id, dw.classOf(targets[cur[id]])})
		}
	case "raw":
	default:
		for i, id := range dc.Entries {
			expect = append(expect, []int{id, dw.classOf(targets[dc.Links[i]%nTargets])})
		}
	}
	lg := 0
	if dw.Kind == "hamt" && dw.Fanout > 0 {
		lg = bits.TrailingZeros(uint(dw.Fanout))
	}
	digits := [][]int{}
	for _, n := range dc.Universe {
		if lg > 0 {
			digits = append(digits, digitsOf(n, lg))
		} else {
			digits = append(digits, []int{})
		}
	}
	plain := dw.Plain
	if plain == nil {
		plain = []WPlain{}
	}
	shards := dw.Shards
	if shards == nil {
		shards = []WShard{}
	}
	missing := dc.Missing
	if missing == nil {
		missing = []int{}
	}
	dirEv := M{"ev": "dir", "kind": dw.Kind, "F": dw.Fanout, "S": shards, "plain": plain, "expect": expect,
		"digits": digits, "missing": missing, "entryC": entryC, "mode": dc.Mode, "size": size, "builder": dc.Builder,
		"rootC": dw.classOf(root), "nuniv": len(dc.Universe)}
	if dc.Builder == "sharded" && len(dc.Entries) > 0 {
		// byte identity with the reference HAMT holding the same entries (C08):
		// compared here, since CIDs are outside what the TLA+ model holds
		st2 := NewStore()
		ref := *dc
		ref.Builder = "boxo"
		ref.Hist = nil
		rroot, rsize, err := buildDir(st2, &ref, putTargets(st2))
		if err != nil {
			return fmt.Errorf("reference build: %w", err)
		}
		dirEv["refEq"] = rroot.Equals(root) && rsize == size
	}
	tr.Emit(dirEv)

	ls := st.LinkSystem()
	unixfsnode.AddUnixFSReificationToLinkSystem(ls)
	rootNode, err := loadNode(ls, root)
	if err != nil {
		return err
	}
	for _, m := range dc.Missing {
		if m <= 0 || m >= len(dw.cids) {
			return fmt.Errorf("bad missing class %d", m)
		}
		st.missing[key(dw.cids[m])] = true
	}
	st.notFound = dc.NotFound
	st.timeout = dc.Timeout
	st.errKind = dc.ErrKind
	st.logLoads = true
	st.loadCount = 0
	st.failLoadAt = dc.FailAt

	var node ipld.Node
	openNode := func() {
		lctx := ipld.LinkContext{Ctx: context.Background()}
		var n ipld.Node
		var err error
		if pm := guard(func() {
			if dc.Open == "preload" {
				n, err = ls.KnownReifiers["unixfs-preload"](lctx, rootNode, ls)
			} else if dc.Open == "lsreify" {
				// the link system itself reifies whatever it loads (NodeReifier, as fetchers and gateways configure it):
				// the root and every child shard come back from Load already reified
				ls.NodeReifier = unixfsnode.Reify
				n, err = ls.Load(lctx, cidlink.Link{Cid: root}, dagpb.Type.PBNode)
			} else {
				n, err = unixfsnode.Reify(lctx, rootNode, ls)
			}
		}); pm != nil {
			n, err = nil, pm
		}
		loads, failed := st.TakeLoads()
		kind := "none"
		if err == nil && n != nil {
			kind = n.Kind().String()
			node = n
		} else {
			node = nil
		}
		tr.Emit(M{"ev": "opennode", "how": dc.Open, "e": errClass(err), "kind": kind,
			"loads": classes(dw, loads), "failed": classes(dw, failed)})
	}
	openNode()

	nameOf := func(x any) (string, int) {
		id := num(x)
		return dc.Universe[id-1], id
	}
	for _, op := range dc.Script {
		if node == nil {
			break
		}
		switch op[0].(string) {
		case "lookup":
			name, id := nameOf(op[1])
			how := op[2].(string)
			var res string
			var link int
			pm := guard(func() {
				switch how {
				case "string":
					n, err := node.LookupByString(name)
					res, link = lookupRes(n, err, dw)
				case "node":
					n, err := node.LookupByNode(basicnode.NewString(name))
					res, link = lookupRes(n, err, dw)
				case "segment":
					n, err := node.LookupBySegment(datamodel.PathSegmentOfString(name))
					res, link = lookupRes(n, err, dw)
				case "dpbnode":
					// the key is a node of the kind the iterators yield (a dag-pb String), not a basicnode string
					n, err := node.LookupByNode(dpbString(name))
					res, link = lookupRes(n, err, dw)
				case "native":
					nd, ok := node.(nativeDir)
					if !ok {
						res = "nonative"
						return
					}
					l := nd.Lookup(dpbString(name))
					if l == nil {
						res = "nil"
					} else {
						res, link = "found", dw.classOf(l.Link().(cidlink.Link).Cid)
					}
				}
			})
			if pm != nil {
				res = "panic"
			}
			loads, failed := st.TakeLoads()
			if name == "" {
				id = -1
			}
			tr.Emit(M{"ev": "lookup", "name": id, "how": how, "res": res, "link": link, "e": res,
				"loads": classes(dw, loads), "failed": classes(dw, failed)})
		case "iter":
			how := op[1].(string)
			// stepping styles (fault-free runs only): "-nodone" calls Next exactly Length() times without asking Done
			// in between and then expects Done; "-dd" asks Done before the loop and twice before every Next
			style := ""
			if i := strings.Index(how, "-"); i >= 0 {
				how, style = how[:i], how[i+1:]
				if len(st.missing) > 0 || st.failLoadAt > 0 {
					style = ""
				}
			}
			var want int64 = -1
			if style == "nodone" {
				if pm := guard(func() { want = node.Length() }); pm != nil {
					want = -1
				}
			}
			pairs := [][]int{}
			errs, steps := 0, 0
			over := "none"
			budget := 10*(len(dc.Universe)+len(dw.cids)+len(dc.Raw)) + 50
			res := "done"
			pm := guard(func() {
				if how == "map" {
					it := node.MapIterator()
					if it == nil {
						res = "noiter"
						return
					}
					// the yielded nodes are kept and read only after the iteration has ended: a pair handed out
					// by Next stays what it was (nodes are immutable values) however far the iterator has moved on
					var kn, vn []ipld.Node
					if style == "dd" {
						it.Done()
					}
					for (style == "nodone" && int64(steps) < want) || (style != "nodone" && !it.Done()) {
						if style == "dd" {
							it.Done()
						}
						steps++
						if steps > budget {
							res = "budget"
							return
						}
						k, v, err := it.Next()
						if err != nil {
							errs++
							continue
						}
						kn, vn = append(kn, k), append(vn, v)
					}
					if style == "nodone" && !it.Done() {
						errs++ // Length() steps were taken and the iterator is not done
					}
					for i := range kn {
						ks, _ := kn[i].AsString()
						l, lerr := vn[i].AsLink()
						lc := 0
						if lerr == nil {
							lc = dw.classOf(l.(cidlink.Link).Cid)
						}
						kid := dw.nid(ks)
						if ks == "" {
							kid = -1 // the empty key
						}
						pairs = append(pairs, []int{kid, lc})
					}
					_, _, err := it.Next()
					if err != nil {
						over = "err"
					} else {
						over = "nil"
					}
				} else {
					it := nativeIteratorOf(node)
					if it == nil {
						res = "noiter"
						return
					}
					if style == "dd" {
						it.Done()
					}
					for (style == "nodone" && int64(steps) < want) || (style != "nodone" && !it.Done()) {
						if style == "dd" {
							it.Done()
						}
						steps++
						if steps > budget {
							res = "budget"
							return
						}
						k, v := it.Next()
						if k == nil || v == nil {
							errs++
							continue
						}
						ks := k.String()
						kid := dw.nid(ks)
						if ks == "" {
							kid = -1
						}
						pairs = append(pairs, []int{kid, dw.classOf(v.Link().(cidlink.Link).Cid)})
					}
					if style == "nodone" && !it.Done() {
						errs++
					}
				}
			})
			if pm != nil {
				res = "panic"
			}
			loads, failed := st.TakeLoads()
			tr.Emit(M{"ev": "iter", "how": how, "style": style, "pairs": pairs, "errs": errs, "res": res, "e": res, "over": over, "steps": steps,
				"loads": classes(dw, loads), "failed": classes(dw, failed)})
		case "length":
			var n int64
			pm := guard(func() { n = node.Length() })
			res := "ok"
			if pm != nil {
				res = "panic"
			}
			loads, failed := st.TakeLoads()
			tr.Emit(M{"ev": "length", "n": n, "res": res, "e": res, "loads": classes(dw, loads), "failed": classes(dw, failed)})
		case "heal":
			st.ClearFaults()
			tr.Emit(M{"ev": "heal"})
		case "reopen":
			openNode()
		default:
			return fmt.Errorf("unknown dir op %v", op)
		}
	}
	return nil
}

var errNotExistOS = os.ErrNotExist

type nativeIter interface {
	Next() (dagpb.String, dagpb.Link)
	Done() bool
}

func nativeIteratorOf(n ipld.Node) nativeIter {
	if d, ok := n.(interface{ Iterator() *iter.UnixFSDir__Itr }); ok {
		return d.Iterator()
	}
	return nil
}

// buildRawDir hand-assembles a dag-pb node from an arbitrary link list
// (names absent, empty, duplicated, any order); RawType 1 gives it UnixFS
// Directory data (encoded with the reference gogo message), -1 no Data.
func buildRawDir(st *Store, dc *DirCase, targets []cid.Cid) (cid.Cid, uint64, error) {
	// Encoded by hand with protowire: go-codec-dagpb's encoder would sort the
	// links by name, but its decoder (and any other writer) accepts any order,
	// and "any order" is what C15 quantifies over.
	var out []byte
	for _, rl := range dc.Raw {
		var lb []byte
		lb = protowire.AppendTag(lb, 1, protowire.BytesType)
		lb = protowire.AppendBytes(lb, targets[rl.Link%nTargets].Bytes())
		if !rl.Absent {
			lb = protowire.AppendTag(lb, 2, protowire.BytesType)
			lb = protowire.AppendBytes(lb, []byte(rl.Name))
		}
		lb = protowire.AppendTag(lb, 3, protowire.VarintType)
		lb = protowire.AppendVarint(lb, 7)
		out = protowire.AppendTag(out, 2, protowire.BytesType)
		out = protowire.AppendBytes(out, lb)
	}
	if dc.RawType >= 0 {
		t := pb.Data_DataType(dc.RawType)
		db, err := proto.Marshal(&pb.Data{Type: &t})
		if err != nil {
			return cid.Undef, 0, err
		}
		out = protowire.AppendTag(out, 1, protowire.BytesType)
		out = protowire.AppendBytes(out, db)
	}
	mh, _ := multihash.Sum(out, multihash.SHA2_256, -1)
	c := cid.NewCidV1(cid.DagProtobuf, mh)
	st.Put(c, out)
	return c, uint64(len(out)), nil
}
