package main

import (
	"bytes"
	"context"
	"encoding/json"
	"errors"
	"flag"
	"fmt"
	"github.com/ipld/go-ipld-prime/schema"
	"google.golang.org/protobuf/encoding/protowire"
	"io"
	"math"
	"math/bits"
	"runtime"
	"slices"
	"strconv"
	"time"

	"github.com/gogo/protobuf/proto"
	pb "github.com/ipfs/boxo/ipld/unixfs/pb"
	"github.com/ipfs/go-cid"
	unixfsnode "github.com/ipfs/go-unixfsnode"
	"github.com/ipfs/go-unixfsnode/data"
	"github.com/ipfs/go-unixfsnode/directory"
	"github.com/ipfs/go-unixfsnode/hamt"
	dagpb "github.com/ipld/go-codec-dagpb"
	"github.com/ipld/go-ipld-prime"
	"github.com/ipld/go-ipld-prime/adl"
	"github.com/ipld/go-ipld-prime/datamodel"
	cidlink "github.com/ipld/go-ipld-prime/linking/cid"
	"github.com/ipld/go-ipld-prime/node/basicnode"
	"github.com/multiformats/go-multihash"
)

// ---- hand-assembled DAGs (ill-formed UnixFS fields survive) ----

type HUnixFS struct {
	Type       *int64   `json:"type"`
	Data       []byte   `json:"data"`
	HasData    bool     `json:"hasdata"`
	FileSize   *uint64  `json:"filesize"`
	BlockSizes []uint64 `json:"blocksizes"`
	HashType   *uint64  `json:"hashtype"`
	Fanout     *uint64  `json:"fanout"`
	Mode       *uint32  `json:"mode"`
	MtimeSec   *int64   `json:"mtimesec"` // a modification time (seconds; nanoseconds when MtimeNs is set)
	MtimeNs    *uint32  `json:"mtimens"`
	// WideType: a DataType varint beyond 32 bits (no generated enum type can hold it): written by hand
	WideType *uint64 `json:"widetype"`
}

type HLink struct {
	Name    *string `json:"name"`
	Tsize   *int64  `json:"tsize"`
	Target  string  `json:"target"`  // id of another block of the case
	Missing bool    `json:"missing"` // link to a block that is not in the store
}

type HBlock struct {
	ID       string   `json:"id"`
	Raw      []byte   `json:"raw"`
	IsRaw    bool     `json:"israw"`
	DataKind string   `json:"datakind"` // none | garbage | unixfs
	U        *HUnixFS `json:"u"`
	Links    []HLink  `json:"links"`
}

type HostileCase struct {
	Fam    string   `json:"fam"`
	ID     string   `json:"id"`
	Blocks []HBlock `json:"blocks"` // children before parents
	Root   string   `json:"root"`
	Open   string   `json:"open"`
	// LSReify: the link system carries NodeReifier = unixfsnode.Reify (the root is still handed over as loaded)
	LSReify bool     `json:"lsreify"`
	Class   string   `json:"class"` // C14: input class of the root
	NonPB   string   `json:"nonpb"` // C14: a non-dag-pb input instead of blocks
	Names   []string `json:"names"` // keys to look up
	// Ops restricts the operations exercised (empty = all): a DAG whose shards share children is small as a
	// block set but astronomically large as a tree, so only the operations that are linear in the block set
	// (Length, which is memoised per shard, and lookups) can be demanded to finish
	Ops []string `json:"ops"`
}

func rawCid(b []byte, codec uint64) cid.Cid {
	mh, _ := multihash.Sum(b, multihash.SHA2_256, -1)
	return cid.NewCidV1(codec, mh)
}

func (u *HUnixFS) encode() []byte {
	d := &pb.Data{}
	if u.Type != nil {
		t := pb.Data_DataType(*u.Type)
		d.Type = &t
	}
	if u.HasData {
		d.Data = u.Data
		if d.Data == nil {
			d.Data = []byte{}
		}
	}
	d.Filesize = u.FileSize
	d.Blocksizes = u.BlockSizes
	d.HashType = u.HashType
	d.Fanout = u.Fanout
	d.Mode = u.Mode
	if u.MtimeSec != nil {
		d.Mtime = &pb.IPFSTimestamp{Seconds: u.MtimeSec, Nanos: u.MtimeNs}
	}
	if u.WideType != nil {
		t := pb.Data_Raw
		d.Type = &t
		b, _ := proto.Marshal(d) // starts with the type field 08 00
		return append(protowire.AppendVarint([]byte{0x08}, *u.WideType), b[2:]...)
	}
	b, err := proto.Marshal(d)
	if err != nil {
		// required Type absent: marshal by hand without it
		d2 := *d
		t := pb.Data_Raw
		d2.Type = &t
		b, _ = proto.Marshal(&d2)
		// strip the leading type field (08 00)
		if len(b) >= 2 && b[0] == 0x08 {
			b = b[2:]
		}
	}
	return b
}

func storeHostile(st *Store, hc *HostileCase) (map[string]cid.Cid, error) {
	ids := map[string]cid.Cid{}
	for _, hb := range hc.Blocks {
		if hb.IsRaw {
			c := rawCid(hb.Raw, cid.Raw)
			st.Put(c, hb.Raw)
			ids[hb.ID] = c
			continue
		}
		nb := dagpb.Type.PBNode.NewBuilder()
		ma, _ := nb.BeginMap(2)
		la, _ := ma.AssembleEntry("Links")
		ll, _ := la.BeginList(int64(len(hb.Links)))
		for _, l := range hb.Links {
			var tc cid.Cid
			if l.Missing {
				tc = rawCid([]byte("missing-"+hb.ID+l.Target), cid.DagProtobuf)
			} else {
				var ok bool
				tc, ok = ids[l.Target]
				if !ok {
					return nil, fmt.Errorf("hostile: unknown target %q", l.Target)
				}
			}
			lb := dagpb.Type.PBLink.NewBuilder()
			lm, _ := lb.BeginMap(3)
			lm.AssembleKey().AssignString("Hash")
			lm.AssembleValue().AssignLink(cidlink.Link{Cid: tc})
			if l.Name != nil {
				lm.AssembleKey().AssignString("Name")
				lm.AssembleValue().AssignString(*l.Name)
			}
			if l.Tsize != nil {
				lm.AssembleKey().AssignString("Tsize")
				lm.AssembleValue().AssignInt(*l.Tsize)
			}
			if err := lm.Finish(); err != nil {
				return nil, err
			}
			if err := ll.AssembleValue().AssignNode(lb.Build()); err != nil {
				return nil, err
			}
		}
		if err := ll.Finish(); err != nil {
			return nil, err
		}
		switch hb.DataKind {
		case "garbage":
			ma.AssembleKey().AssignString("Data")
			ma.AssembleValue().AssignBytes([]byte{0xff, 0xff, 0xff, 0x01, 0x99})
		case "unixfs":
			ma.AssembleKey().AssignString("Data")
			ma.AssembleValue().AssignBytes(hb.U.encode())
		}
		if err := ma.Finish(); err != nil {
			return nil, err
		}
		var buf bytes.Buffer
		if err := dagpb.Encode(nb.Build(), &buf); err != nil {
			return nil, fmt.Errorf("hostile: encode %s: %w", hb.ID, err)
		}
		c := rawCid(buf.Bytes(), cid.DagProtobuf)
		st.Put(c, buf.Bytes())
		ids[hb.ID] = c
	}
	return ids, nil
}

// hamtTable describes every stored block of a hostile case the way spec/HostileOps.tla wants it, from the stored
// bytes through go-codec-dagpb and the gogo UnixFS message (never through the library under test).
func hamtTable(st *Store, hc *HostileCase, ids map[string]cid.Cid) []M {
	idx := map[string]int{}
	for i, hb := range hc.Blocks {
		idx[ids[hb.ID].KeyString()] = i + 1 // the full CID: an empty raw block and an empty dag-pb node share their multihash
	}
	keyID := map[string]int{}
	for i, k := range hc.Names {
		if _, dup := keyID[k]; !dup {
			keyID[k] = i + 1
		}
	}
	var out []M
	for _, hb := range hc.Blocks {
		c := ids[hb.ID]
		raw, _ := st.Get(c)
		e := M{"kind": "raw", "typ": -1, "hashOK": false, "hasFan": false, "fanout": 0, "pow2": false, "bfOK": false, "bits": []int{}, "links": []M{}}
		out = append(out, e)
		if c.Prefix().Codec != cid.DagProtobuf {
			continue
		}
		nb := dagpb.Type.PBNode.NewBuilder()
		if err := dagpb.DecodeBytes(nb, raw); err != nil {
			e["kind"] = "baddata"
			continue
		}
		pbn := nb.Build().(dagpb.PBNode)
		fan := 0
		if !pbn.Data.Exists() {
			e["kind"] = "nodata"
		} else {
			var d pb.Data
			if err := proto.Unmarshal(pbn.Data.Must().Bytes(), &d); err != nil || d.Type == nil {
				e["kind"] = "baddata"
			} else {
				e["kind"] = "unixfs"
				e["typ"] = int(d.GetType())
				if wt, ok := wireDataType(pbn.Data.Must().Bytes()); ok && wt > 1<<30 {
					e["typ"] = 1 << 30 // the generated enum type holds 32 bits; the value on the wire is what counts
				}
				e["hashOK"] = d.HashType != nil && *d.HashType == 0x22
				if d.Fanout != nil {
					v := int(int64(*d.Fanout))
					e["hasFan"] = true
					e["pow2"] = v > 0 && v&(v-1) == 0
					if v < 0 || v > 1<<20 {
						v = 1 << 20 // clamp (TLC integers are 32-bit); anything above 1024 is refused alike
					}
					fan = v
					e["fanout"] = v
				}
				if fan > 0 && fan%8 == 0 && fan <= 1024 {
					e["bfOK"] = len(d.Data) <= fan/8
					bits := []int{}
					for i := 0; i < fan; i++ {
						j := len(d.Data) - 1 - i/8
						if j >= 0 && d.Data[j]>>uint(i%8)&1 == 1 {
							bits = append(bits, i)
						}
					}
					e["bits"] = bits
				}
			}
		}
		pad := 1
		if fan > 0 {
			pad = len(fmt.Sprintf("%X", fan-1))
		}
		links := []M{}
		li := pbn.Links.Iterator()
		for !li.Done() {
			_, l := li.Next()
			m := M{"hasName": l.Name.Exists(), "cls": "short", "name": 0, "target": idx[l.Hash.Link().(cidlink.Link).Cid.KeyString()]}
			if l.Name.Exists() {
				nm := l.Name.Must().String()
				switch {
				case len(nm) == pad:
					m["cls"] = "pad"
				case len(nm) > pad:
					m["cls"] = "long"
					m["name"] = keyID[nm[pad:]]
				}
			}
			links = append(links, m)
		}
		e["links"] = links
	}
	return out
}

// fileTable describes every stored block of a hostile file case the way spec/FileHostileOps.tla wants it (again from the
// stored bytes through independent decoders).  ok is false when a number does not fit TLC's integers.
func fileTable(st *Store, hc *HostileCase, ids map[string]cid.Cid) ([]M, bool) {
	idx := map[string]int{}
	for i, hb := range hc.Blocks {
		idx[ids[hb.ID].KeyString()] = i + 1 // the full CID: an empty raw block and an empty dag-pb node share their multihash
	}
	fits := true
	small := func(v int64) int64 {
		if v > 1<<26 || v < -(1<<26) {
			fits = false
			return 0
		}
		return v
	}
	var out []M
	for _, hb := range hc.Blocks {
		c := ids[hb.ID]
		raw, _ := st.Get(c)
		e := M{"kind": "raw", "typ": -1, "len": len(raw), "hasFS": false, "fsize": 0, "bsizes": []int64{}, "links": []M{}}
		out = append(out, e)
		if c.Prefix().Codec != cid.DagProtobuf {
			continue
		}
		e["len"] = 0
		nb := dagpb.Type.PBNode.NewBuilder()
		if err := dagpb.DecodeBytes(nb, raw); err != nil {
			e["kind"] = "baddata"
			continue
		}
		pbn := nb.Build().(dagpb.PBNode)
		if !pbn.Data.Exists() {
			e["kind"] = "nodata"
		} else {
			var d pb.Data
			if err := proto.Unmarshal(pbn.Data.Must().Bytes(), &d); err != nil || d.Type == nil {
				e["kind"] = "baddata"
			} else {
				e["kind"] = "unixfs"
				e["typ"] = int(d.GetType())
				e["len"] = len(d.Data)
				if d.Filesize != nil {
					e["hasFS"] = true
					e["fsize"] = small(int64(*d.Filesize))
				}
				bs := []int64{}
				for _, v := range d.Blocksizes {
					bs = append(bs, small(int64(v)))
				}
				e["bsizes"] = bs
			}
		}
		links := []M{}
		li := pbn.Links.Iterator()
		for !li.Done() {
			_, l := li.Next()
			tc := l.Hash.Link().(cidlink.Link).Cid
			m := M{"target": idx[tc.KeyString()], "raw": tc.Prefix().Codec == cid.Raw, "hasT": l.Tsize.Exists(), "tsize": 0}
			if l.Tsize.Exists() {
				m["tsize"] = small(l.Tsize.Must().Int())
			}
			links = append(links, m)
		}
		e["links"] = links
	}
	return out, fits
}

// ---- exercising a node through every operation, under recover and budgets ----

type opResult struct {
	Rec   M // op "pair": the generic-method records of the first yielded key and value
	Op    string
	Out   string // value | error | panic | budget | timeout
	Steps int
	Info  string
	Key   int // lookups: 1-based index of the key among the case's names (0 otherwise)
}

// probeNode: the outcome of every generic datamodel.Node method of nd (AsBytes is skipped on bytes nodes: on a
// file it reads the whole file)
func probeNode(node ipld.Node) M {
	eo := func(err error) string {
		if err != nil {
			return "err"
		}
		return "ok"
	}
	_, e1 := node.AsBool()
	_, e2 := node.AsInt()
	_, e3 := node.AsFloat()
	_, e4 := node.AsString()
	_, e5 := node.AsLink()
	rec := M{"kind": node.Kind().String(), "asbool": eo(e1), "asint": eo(e2), "asfloat": eo(e3), "asstring": eo(e4), "aslink": eo(e5),
		"isnull": node.IsNull(), "isabsent": node.IsAbsent(), "len": min(node.Length(), 1<<30), // TLC integers are 32-bit
		"listiter": map[bool]string{true: "nil", false: "non"}[node.ListIterator() == nil]}
	if node.Kind() != datamodel.Kind_Bytes {
		_, e6 := node.AsBytes()
		rec["asbytes"] = eo(e6)
	} else {
		rec["asbytes"] = "ok"
	}
	_, e7 := node.LookupByIndex(0)
	rec["idx0"] = eo(e7)
	_, e8 := node.LookupByString("x")
	_, e9 := node.LookupByNode(basicnode.NewString("x"))
	_, e10 := node.LookupBySegment(datamodel.PathSegmentOfString("x"))
	rec["lookups"] = map[bool]string{true: "err", false: "some-ok"}[e8 != nil && e9 != nil && e10 != nil]
	rec["mapiter"] = map[bool]string{true: "nil", false: "non"}[node.MapIterator() == nil]
	rec["proto"] = node.Prototype() != nil
	return rec
}

func timed(f func() (string, int, string)) (out string, steps int, info string) {
	type r struct {
		out   string
		steps int
		info  string
	}
	ch := make(chan r, 1)
	go func() {
		var rr r
		if pm := guard(func() { rr.out, rr.steps, rr.info = f() }); pm != nil {
			rr = r{"panic", 0, pm.Error()}
		}
		ch <- rr
	}()
	d := 20 * time.Second
	if hangSeen {
		d = 2 * time.Second // one runaway call has been reported already; its goroutine may still be burning a core
	}
	select {
	case x := <-ch:
		return x.out, x.steps, x.info
	case <-time.After(d):
		hangSeen = true
		return "timeout", 0, ""
	}
}

// lookupDetail: found | notfound | err (beyond value-vs-error: what spec/HostileOps.tla predicts)
func lookupDetail(nd ipld.Node, err error) string {
	if err == nil {
		if nd == nil {
			return "nilnode"
		}
		return "found"
	}
	var nsf schema.ErrNoSuchField
	var ne datamodel.ErrNotExists
	if errors.As(err, &nsf) || errors.As(err, &ne) {
		return "notfound"
	}
	return "err"
}

func errOut(err error) string {
	if err == nil {
		return "value"
	}
	return "error"
}

func exerciseNode(n ipld.Node, names []string, budget int, only ...string) []opResult {
	var res []opResult
	curKey := 0
	stuck := false
	add := func(op string, f func() (string, int, string)) {
		if len(only) > 0 && !slices.Contains(only, op) {
			return
		}
		if stuck {
			return // an earlier call on this node never returned and may hold the node's locks
		}
		defer func() { stuck = stuck || res[len(res)-1].Out == "timeout" }()
		out, steps, info := timed(f)
		res = append(res, opResult{Op: op, Out: out, Steps: steps, Info: info, Key: curKey})
	}
	add("kind", func() (string, int, string) { return "value", 0, n.Kind().String() })
	add("length", func() (string, int, string) { return "value", 0, fmt.Sprint(n.Length()) })
	add("misc", func() (string, int, string) {
		n.IsNull()
		n.IsAbsent()
		n.AsBool()
		n.AsInt()
		n.AsFloat()
		n.AsString()
		n.AsLink()
		n.Prototype()
		n.LookupByIndex(0)
		n.ListIterator()
		return "value", 0, ""
	})
	if n.Kind() == datamodel.Kind_Map {
		for ki, k := range names {
			k := k
			curKey = ki + 1
			add("lookup-string", func() (string, int, string) {
				nd, err := n.LookupByString(k)
				return errOut(err), 0, lookupDetail(nd, err)
			})
			add("lookup-node", func() (string, int, string) {
				_, err := n.LookupByNode(basicnode.NewString(k))
				return errOut(err), 0, ""
			})
			add("lookup-segment", func() (string, int, string) {
				_, err := n.LookupBySegment(datamodel.PathSegmentOfString(k))
				return errOut(err), 0, ""
			})
			if nd, ok := n.(nativeDir); ok {
				add("lookup-native", func() (string, int, string) { nd.Lookup(dpbString(k)); return "value", 0, "" })
			}
		}
		curKey = 0
		add("iter-map", func() (string, int, string) {
			it := n.MapIterator()
			if it == nil {
				return "value", 0, "nil iterator"
			}
			steps, errs := 0, 0
			for !it.Done() {
				steps++
				if steps > budget {
					return "budget", steps, ""
				}
				k, v, err := it.Next()
				if err == nil {
					k.AsString()
					v.AsLink()
				} else {
					errs++
				}
			}
			it.Next()
			return "value", steps, fmt.Sprintf("errs=%d", errs)
		})
		// the first pair a fresh iterator yields: the key and the value are nodes in their own right
		var pairRec M
		add("pair", func() (string, int, string) {
			it := n.MapIterator()
			if it == nil {
				return "value", 0, "none"
			}
			for steps := 0; !it.Done() && steps < budget; steps++ {
				k, v, err := it.Next()
				if err == nil && k != nil && v != nil {
					pairRec = M{"k": probeNode(k), "v": probeNode(v)}
					return "value", steps, "pair"
				}
			}
			return "value", 0, "none"
		})
		if len(res) > 0 && res[len(res)-1].Op == "pair" {
			res[len(res)-1].Rec = pairRec
		}
		if it := nativeIteratorOf(n); it != nil {
			add("iter-native", func() (string, int, string) {
				it := nativeIteratorOf(n)
				steps := 0
				for !it.Done() {
					steps++
					if steps > budget {
						return "budget", steps, ""
					}
					k, _ := it.Next()
					if k != nil {
						_ = k.String()
					}
				}
				return "value", steps, ""
			})
		}
	}
	if n.Kind() == datamodel.Kind_Bytes {
		add("asbytes", func() (string, int, string) { b, err := n.AsBytes(); return errOut(err), len(b), "" })
		if lb, ok := n.(datamodel.LargeBytesNode); ok {
			add("readseek", func() (string, int, string) {
				rd, err := lb.AsLargeBytes()
				if err != nil {
					return "error", 0, ""
				}
				steps, total := 0, 0
				buf := make([]byte, 7)
				script := [][2]int64{{0, io.SeekEnd}, {-1, io.SeekStart}, {0, io.SeekCurrent}, {-3, io.SeekEnd}, {1 << 40, io.SeekStart}, {0, io.SeekStart},
					{math.MinInt64, io.SeekCurrent}, {2, io.SeekStart}}
				for _, s := range script {
					rd.Seek(s[0], int(s[1]))
					for i := 0; i < 3; i++ {
						steps++
						n, err := rd.Read(buf)
						total += n
						if err != nil {
							break
						}
					}
				}
				rd.Seek(0, io.SeekStart)
				for {
					steps++
					if steps > budget+total {
						return "budget", steps, ""
					}
					n, err := rd.Read(buf)
					total += n
					if err != nil {
						break
					}
				}
				return "value", steps, ""
			})
		}
	}
	return res
}

// wireDataType: the value of field 1 (Type) of a UnixFS Data message as it stands on the wire (last occurrence)
func wireDataType(b []byte) (v uint64, ok bool) {
	for len(b) > 0 {
		num, typ, n := protowire.ConsumeTag(b)
		if n < 0 {
			return v, ok
		}
		b = b[n:]
		if num == 1 && typ == protowire.VarintType {
			x, m := protowire.ConsumeVarint(b)
			if m < 0 {
				return v, ok
			}
			v, ok = x, true
		}
		m := protowire.ConsumeFieldValue(num, typ, b)
		if m < 0 {
			return v, ok
		}
		b = b[m:]
	}
	return v, ok
}

func ctorOrEmpty(c M) M {
	if c == nil {
		return M{}
	}
	return c
}

// rootMembers: the 1-based indices, among the case's lookup keys, of the names the root block's links carry
func rootMembers(hc *HostileCase) []int {
	out := []int{}
	if hc.NonPB != "" || hc.Root == "" {
		return out
	}
	var root *HBlock
	for i := range hc.Blocks {
		if hc.Blocks[i].ID == hc.Root {
			root = &hc.Blocks[i]
		}
	}
	if root == nil {
		return out
	}
	for ki, k := range hc.Names {
		for _, l := range root.Links {
			if l.Name != nil && *l.Name == k {
				out = append(out, ki+1)
				break
			}
		}
	}
	return out
}

func runHostileCase(hc *HostileCase, tr *Tr) error {
	fhH, fhRoot := []M{}, 0
	var hmH []M
	var ctor M
	var hmDigits [][]int
	hmRoot := 0
	st := NewStore()
	tr.Emit(M{"ev": "reset", "case": caseString(hc)})
	var rootNode ipld.Node
	var rootBytes []byte
	ls := st.LinkSystem()
	unixfsnode.AddUnixFSReificationToLinkSystem(ls)
	if hc.NonPB != "" {
		switch hc.NonPB {
		case "bytes":
			rootNode = basicnode.NewBytes([]byte("plain bytes"))
		case "string":
			rootNode = basicnode.NewString("a string")
		case "int":
			rootNode = basicnode.NewInt(7)
		case "null":
			rootNode = datamodel.Null
		case "bool":
			rootNode = basicnode.NewBool(true)
		case "float":
			rootNode = basicnode.NewFloat(1.5)
		case "link":
			rootNode = basicnode.NewLink(cidlink.Link{Cid: rawCid([]byte("x"), cid.Raw)})
		case "map":
			nb := basicnode.Prototype.Map.NewBuilder()
			ma, _ := nb.BeginMap(1)
			ma.AssembleKey().AssignString("Data")
			ma.AssembleValue().AssignBytes([]byte{8, 2})
			ma.Finish()
			rootNode = nb.Build()
		case "list":
			nb := basicnode.Prototype.List.NewBuilder()
			la, _ := nb.BeginList(0)
			la.Finish()
			rootNode = nb.Build()
		}
	} else {
		ids, err := storeHostile(st, hc)
		if err != nil {
			return err
		}
		root := ids[hc.Root]
		rootBytes, _ = st.Get(root)
		// the block table for spec/FileHostileOps.tla (file roots whose numbers fit TLC's integers)
		if rb := hc.block(hc.Root); rb != nil && rb.U != nil && rb.U.Type != nil && (*rb.U.Type == 2 || *rb.U.Type == 0) && len(hc.Ops) == 0 {
			if t, fits := fileTable(st, hc, ids); fits {
				fhH = t
				for i, hb := range hc.Blocks {
					if hb.ID == hc.Root {
						fhRoot = i + 1
					}
				}
			}
		}
		// the block table for spec/HostileOps.tla (sharded-directory cases only) and every key's buckets at the root's width
		if rb := hc.block(hc.Root); rb != nil && rb.U != nil && rb.U.Type != nil && *rb.U.Type == 5 && len(hc.Ops) == 0 {
			hmH = hamtTable(st, hc, ids)
			for i, hb := range hc.Blocks {
				if hb.ID == hc.Root {
					hmRoot = i + 1
				}
			}
			if f, ok := hmH[hmRoot-1]["fanout"].(int); ok && f >= 2 && f <= 1024 && f&(f-1) == 0 {
				for _, k := range hc.Names {
					hmDigits = append(hmDigits, digitsOf(k, bits.TrailingZeros(uint(f))))
				}
			}
		}
		rootNode, err = loadNode(ls, root)
		if err != nil {
			return fmt.Errorf("hostile: root does not decode as dag-pb: %w", err)
		}
		// the exported constructors called directly on the root (what the reifier does after its type switch)
		if pbn, isPB := rootNode.(dagpb.PBNode); isPB && len(hc.Ops) == 0 {
			for i, hb := range hc.Blocks {
				if hb.ID == hc.Root {
					ctor = M{"rootE": hamtTable(st, hc, ids)[i], "attempt": "err", "basicdir": "na", "shard": "na"}
				}
			}
			if ctor != nil {
				if pm := guard(func() {
					if _, err := hamt.AttemptHAMTShardFromNode(context.Background(), rootNode, ls); err == nil {
						ctor["attempt"] = "ok"
					}
					if pbn.FieldData().Exists() {
						if ud, err := data.DecodeUnixFSData(pbn.FieldData().Must().Bytes()); err == nil {
							_, e1 := directory.NewUnixFSBasicDir(context.Background(), pbn, ud, ls)
							_, e2 := hamt.NewUnixFSHAMTShard(context.Background(), pbn, ud, ls)
							ctor["basicdir"] = map[bool]string{true: "ok", false: "err"}[e1 == nil]
							ctor["shard"] = map[bool]string{true: "ok", false: "err"}[e2 == nil]
						}
					}
				}); pm != nil {
					ctor["attempt"] = "panic"
				}
			}
		}
	}
	st.logLoads = true
	var node ipld.Node
	var err error
	lctx := ipld.LinkContext{Ctx: context.Background()}
	if hmH == nil {
		hmH, hmDigits = []M{}, [][]int{}
	}
	if hmDigits == nil {
		hmDigits = [][]int{}
	}
	var ms0, ms1 runtime.MemStats
	runtime.ReadMemStats(&ms0)
	out, _, info := timed(func() (string, int, string) {
		if hc.LSReify {
			// the link system reifies what it loads (as fetchers and gateways configure it): child blocks arrive reified
			ls.NodeReifier = unixfsnode.Reify
		}
		if hc.Open == "preload" {
			node, err = ls.KnownReifiers["unixfs-preload"](lctx, rootNode, ls)
		} else {
			node, err = unixfsnode.Reify(lctx, rootNode, ls)
		}
		return errOut(err), 0, ""
	})
	runtime.ReadMemStats(&ms1)
	allocKiB := int((ms1.TotalAlloc - ms0.TotalAlloc) >> 10)
	res := "error"
	subSame, reenc, kind := false, false, "none"
	if out == "value" && node != nil {
		kind = node.Kind().String()
		switch node.(type) {
		case unixfsnode.PathedPBNode:
			res = "linkmap"
		case directory.UnixFSBasicDir:
			res = "dir"
		case hamt.UnixFSHAMTShard:
			res = "hamtdir"
		default:
			if _, ok := node.(datamodel.LargeBytesNode); ok && node.Kind() == datamodel.Kind_Bytes {
				res = "file"
			} else {
				res = "other"
			}
		}
		if node == rootNode {
			res = "same"
		}
		if a, ok := node.(adl.ADL); ok {
			sub := a.Substrate()
			subSame = sub == rootNode
			var buf bytes.Buffer
			if pm := guard(func() {
				if err := dagpb.Encode(sub, &buf); err == nil {
					reenc = bytes.Equal(buf.Bytes(), rootBytes)
				}
			}); pm != nil {
				reenc = false
			}
		}
	} else if out != "value" {
		res = out // error | panic | timeout
	}
	adlRec := M{}
	if out == "value" && node != nil {
		probe := func() { adlRec = probeNode(node) }
		if o, _, _ := timed(func() (string, int, string) { probe(); return "value", 0, "" }); o == "timeout" {
			// one of the generic node methods (Length, on a map) never returned
			adlRec, res = M{}, "timeout"
		}
	}
	storedKiB := 0
	for _, hb := range hc.Blocks {
		storedKiB += len(hb.Raw) >> 10
	}
	tr.Emit(M{"ev": "reify", "allocKiB": min(allocKiB, 1<<30), "storedKiB": storedKiB, "adl": adlRec, "cls": hc.Class, "variant": hc.Open, "res": res, "kind": kind, "subSame": subSame, "reenc": reenc,
		"ctor": ctorOrEmpty(ctor), "H": hmH, "hroot": hmRoot, "hdigits": hmDigits, "FH": fhH, "fhroot": fhRoot, "members": rootMembers(hc),
		"e": res, "info": info, "isADL": subSame || reenc || res == "file" || res == "dir" || res == "hamtdir" || res == "linkmap"})
	if out != "value" || node == nil || res == "timeout" {
		return nil
	}
	// the work allowed is proportional to what the case was given: its blocks and the links they carry
	// and the bytes those links point at (a byte delivered is a step)
	nblocks, nbytes := len(hc.Blocks)+1, 0
	rawLen := map[string]int{}
	for _, hb := range hc.Blocks {
		rawLen[hb.ID] = len(hb.Raw)
	}
	for _, hb := range hc.Blocks {
		nblocks += len(hb.Links)
		for _, l := range hb.Links {
			nbytes += rawLen[l.Target]
		}
	}
	budget := 50*nblocks + 200 + nbytes
	for _, r := range exerciseNode(node, hc.Names, budget, hc.Ops...) {
		ev := M{"ev": "hop", "op": r.Op, "out": r.Out, "e": r.Out, "steps": r.Steps, "budget": budget, "info": r.Info, "key": r.Key,
			"errs": -1, "n": -1}
		if r.Rec != nil {
			ev["pair"] = r.Rec
		}
		var x int
		if _, err := fmt.Sscanf(r.Info, "errs=%d", &x); err == nil {
			ev["errs"] = x
		}
		if r.Op == "length" {
			if v, err := strconv.ParseInt(r.Info, 10, 64); err == nil {
				ev["n"] = min(v, 1<<30)
			}
		}
		tr.Emit(ev)
	}
	return nil
}

func init() {
	caseRunners["hostile"] = func(b []byte, tr *Tr) error {
		var hc HostileCase
		if err := json.Unmarshal(b, &hc); err != nil {
			return err
		}
		return runHostileCase(&hc, tr)
	}
	cmds["hostile-gen"] = func(args []string) error {
		fs := flag.NewFlagSet("hostile-gen", flag.ExitOnError)
		what := fs.String("what", "reify", "reify|hamt|file|dir")
		pairs := fs.Bool("pairs", true, "also apply defects two at a time")
		triples := fs.Bool("triples", false, "apply defects three at a time (only those)")
		out := fs.String("out", "", "trace output")
		fs.Parse(args)
		tr, err := NewTr(*out)
		if err != nil {
			return err
		}
		defer tr.Close()
		var cases []*HostileCase
		switch *what {
		case "reify":
			cases = reifyCases()
		case "hamt":
			if *triples {
				cases = mutateTriples("hamt", baseHamt, hamtMutators())
			} else {
				cases = mutateAll("hamt", baseHamt, hamtMutators(), *pairs)
				cases = append(cases, sharedChildCases()...)
			}
		case "file":
			if *triples {
				cases = mutateTriples("file", baseFile, fileMutators())
			} else {
				cases = mutateAll("file", baseFile, fileMutators(), *pairs)
			}
		case "dir":
			cases = mutateAll("dir", baseDir, dirMutators(), *pairs)
		default:
			return fmt.Errorf("unknown -what %q", *what)
		}
		for _, hc := range cases {
			for _, open := range []string{"reify", "preload"} {
				c := *hc
				c.Open = open
				c.ID = c.ID + "-" + open
				if err := runHostileCase(&c, tr); err != nil {
					return fmt.Errorf("%s: %w", c.ID, err)
				}
				if *what == "reify" {
					c.LSReify = true
					c.ID += "-lsreify"
					if err := runHostileCase(&c, tr); err != nil {
						return fmt.Errorf("%s: %w", c.ID, err)
					}
				}
			}
		}
		return nil
	}
}
