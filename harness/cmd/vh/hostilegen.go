package main

import (
	"bytes"
	"fmt"
)

func sp(s string) *string  { return &s }
func ip(i int64) *int64    { return &i }
func up(u uint64) *uint64  { return &u }
func tp(t int64) *int64    { return &t }
func u32(u uint32) *uint32 { return &u }

func (hc *HostileCase) block(id string) *HBlock {
	for i := range hc.Blocks {
		if hc.Blocks[i].ID == id {
			return &hc.Blocks[i]
		}
	}
	panic("no block " + id)
}

func (hc *HostileCase) clone() *HostileCase {
	c := *hc
	c.Blocks = make([]HBlock, len(hc.Blocks))
	for i, b := range hc.Blocks {
		nb := b
		nb.Links = append([]HLink(nil), b.Links...)
		if b.U != nil {
			u := *b.U
			u.BlockSizes = append([]uint64(nil), b.U.BlockSizes...)
			u.Data = append([]byte(nil), b.U.Data...)
			nb.U = &u
		}
		c.Blocks[i] = nb
	}
	return &c
}

func bitfieldBytes(fanout int, set ...int) []byte {
	b := make([]byte, fanout/8)
	for _, i := range set {
		b[len(b)-1-i/8] |= 1 << uint(i%8)
	}
	// strip leading zero bytes like go-bitfield's Bytes()
	for len(b) > 0 && b[0] == 0 {
		b = b[1:]
	}
	return b
}

func shardU(fanout int, set ...int) *HUnixFS {
	return &HUnixFS{Type: tp(5), HasData: true, Data: bitfieldBytes(fanout, set...), HashType: up(0x22), Fanout: up(uint64(fanout))}
}

// baseHamt: a valid three-level fanout-8 HAMT holding u[0], u[2], u[3] of the mined universe.
func baseHamt() *HostileCase {
	u := mineUniverse(8, "plain")
	d0, d2, d3 := digitsOf(u[0], 3), digitsOf(u[2], 3), digitsOf(u[3], 3)
	pre := func(i int, s string) *string { return sp(fmt.Sprintf("%X%s", i, s)) }
	hc := &HostileCase{Fam: "hostile", Root: "root", Names: []string{u[0], u[1], u[2], u[3], "zz", ""}}
	hc.Blocks = []HBlock{
		{ID: "t0", IsRaw: true, Raw: []byte("target zero")},
		{ID: "t1", IsRaw: true, Raw: []byte("target one")},
		{ID: "gc", DataKind: "unixfs", U: shardU(8, d2[2], d3[2]), Links: []HLink{
			{Name: pre(d2[2], u[2]), Tsize: ip(11), Target: "t0"}, {Name: pre(d3[2], u[3]), Tsize: ip(10), Target: "t1"}}},
		{ID: "ch", DataKind: "unixfs", U: shardU(8, d2[1]), Links: []HLink{{Name: pre(d2[1], ""), Tsize: ip(100), Target: "gc"}}},
		{ID: "root", DataKind: "unixfs", U: shardU(8, d0[0], d2[0]), Links: []HLink{
			{Name: pre(d0[0], u[0]), Tsize: ip(11), Target: "t0"}, {Name: pre(d2[0], ""), Tsize: ip(200), Target: "ch"}}},
	}
	// dag-pb sorts links by name on encode; keep the table sorted the same way
	for i := range hc.Blocks {
		ls := hc.Blocks[i].Links
		for a := 1; a < len(ls); a++ {
			for b := a; b > 0 && *ls[b].Name < *ls[b-1].Name; b-- {
				ls[b], ls[b-1] = ls[b-1], ls[b]
			}
		}
	}
	return hc
}

// sharedChildCases: well-formed shards (full bitfield, matching fanout, correctly named links) in which every
// link of a shard carries the same child CID. `depth` interior levels over one leaf shard are depth+1 blocks but
// fanout^depth paths; Length (memoised per shard) and lookups stay linear in the block set.
func sharedChildCases() []*HostileCase {
	var out []*HostileCase
	for _, fd := range [][2]int{{8, 14}, {64, 6}, {256, 4}} {
		fanout, depth := fd[0], fd[1]
		pad := len(fmt.Sprintf("%X", fanout-1))
		all := make([]int, fanout)
		for i := range all {
			all[i] = i
		}
		hc := &HostileCase{Fam: "hostile", Root: "root", Class: "hostile", ID: fmt.Sprintf("hamt-sharedchild-%d-%d", fanout, depth),
			Names: []string{"a", "zz"}, Ops: []string{"kind", "length", "lookup-string", "lookup-native"}}
		hc.Blocks = append(hc.Blocks, HBlock{ID: "t0", IsRaw: true, Raw: []byte("target zero")})
		level := func(id, target string, value bool) HBlock {
			b := HBlock{ID: id, DataKind: "unixfs", U: shardU(fanout, all...)}
			for i := 0; i < fanout; i++ {
				name := fmt.Sprintf("%0*X", pad, i)
				if value {
					name += fmt.Sprintf("entry-%d", i)
				}
				b.Links = append(b.Links, HLink{Name: sp(name), Tsize: ip(11), Target: target})
			}
			return b
		}
		hc.Blocks = append(hc.Blocks, level("l0", "t0", true))
		for d := 1; d <= depth; d++ {
			id := fmt.Sprintf("l%d", d)
			if d == depth {
				id = "root"
			}
			hc.Blocks = append(hc.Blocks, level(id, fmt.Sprintf("l%d", d-1), false))
		}
		out = append(out, hc)
	}
	return out
}

type mutator struct {
	name string
	f    func(hc *HostileCase)
}

func hamtMutators() []mutator {
	shardLinkIdx := func(b *HBlock) int {
		for i, l := range b.Links {
			if l.Target == "ch" || l.Target == "gc" {
				return i
			}
		}
		return 0
	}
	valueLinkIdx := func(b *HBlock) int {
		for i, l := range b.Links {
			if l.Target == "t0" || l.Target == "t1" {
				return i
			}
		}
		return 0
	}
	ms := []mutator{
		// a child shard that holds nothing (no links, all-zero / absent bitfield): valid-looking, as left by a writer that
		// removes entries without collapsing shards
		{"gc-emptied", func(hc *HostileCase) { hc.block("gc").Links = nil; hc.block("gc").U.Data = []byte{} }},
		{"ch-emptied", func(hc *HostileCase) { hc.block("ch").Links = nil; hc.block("ch").U.Data = []byte{} }},
		{"gc-emptied-nobf", func(hc *HostileCase) { hc.block("gc").Links = nil; hc.block("gc").U.HasData = false }},
		{"bf-long-root", func(hc *HostileCase) { hc.block("root").U.Data = []byte{0, 1, 0xff} }},
		{"bf-long-child", func(hc *HostileCase) { hc.block("ch").U.Data = []byte{1, 2, 3, 4} }},
		{"bf-zero-root", func(hc *HostileCase) { hc.block("root").U.Data = []byte{} }},
		{"bf-ones-root", func(hc *HostileCase) { hc.block("root").U.Data = []byte{0xff} }},
		{"bf-ones-child", func(hc *HostileCase) { hc.block("gc").U.Data = []byte{0xff} }},
		{"bf-absent-root", func(hc *HostileCase) { hc.block("root").U.HasData = false }},
		{"root-fanout-1024", func(hc *HostileCase) {
			// child shards keep fanout 8: prefix lengths differ between parent and child
			r := hc.block("root")
			r.U.Fanout = up(1024)
			var set []int
			for i := range r.Links {
				var idx int
				fmt.Sscanf((*r.Links[i].Name)[:1], "%X", &idx)
				set = append(set, idx)
				r.Links[i].Name = sp(fmt.Sprintf("%03X%s", idx, (*r.Links[i].Name)[1:]))
			}
			r.U.Data = bitfieldBytes(1024, set...)
		}},
		{"short-child-names", func(hc *HostileCase) {
			b := hc.block("gc")
			for i := range b.Links {
				b.Links[i].Name = sp((*b.Links[i].Name)[:1] + "a")
			}
		}},
		{"child-fanout-256", func(hc *HostileCase) { hc.block("ch").U.Fanout = up(256) }},
		{"gc-fanout-16", func(hc *HostileCase) { hc.block("gc").U.Fanout = up(16) }},
		{"name-empty", func(hc *HostileCase) { b := hc.block("root"); b.Links[valueLinkIdx(b)].Name = sp("") }},
		{"name-absent", func(hc *HostileCase) { b := hc.block("root"); b.Links[valueLinkIdx(b)].Name = nil }},
		{"child-name-absent", func(hc *HostileCase) { b := hc.block("gc"); b.Links[0].Name = nil }},
		{"shardlink-to-raw", func(hc *HostileCase) { b := hc.block("root"); b.Links[shardLinkIdx(b)].Target = "t0" }},
		{"shardlink-missing", func(hc *HostileCase) { b := hc.block("root"); b.Links[shardLinkIdx(b)].Missing = true }},
		{"childshardlink-missing", func(hc *HostileCase) { b := hc.block("ch"); b.Links[0].Missing = true }},
		{"tsize-absent", func(hc *HostileCase) {
			for i := range hc.block("root").Links {
				hc.block("root").Links[i].Tsize = nil
			}
		}},
		{"child-type-dir", func(hc *HostileCase) { hc.block("ch").U.Type = tp(1) }},
		{"child-type-file", func(hc *HostileCase) { hc.block("gc").U.Type = tp(2) }},
		{"child-nodata", func(hc *HostileCase) { hc.block("ch").DataKind = "none" }},
		{"child-garbage", func(hc *HostileCase) { hc.block("gc").DataKind = "garbage" }},
		{"hashtype-wrong", func(hc *HostileCase) { hc.block("root").U.HashType = up(0x12) }},
		{"hashtype-absent-child", func(hc *HostileCase) { hc.block("ch").U.HashType = nil }},
		{"fanout-absent", func(hc *HostileCase) { hc.block("root").U.Fanout = nil }},
		{"fanout-absent-child", func(hc *HostileCase) { hc.block("ch").U.Fanout = nil }},
		{"fanout-0", func(hc *HostileCase) { hc.block("root").U.Fanout = up(0) }},
		{"fanout-1", func(hc *HostileCase) { hc.block("root").U.Fanout = up(1) }},
		{"fanout-3", func(hc *HostileCase) { hc.block("ch").U.Fanout = up(3) }},
		{"fanout-4", func(hc *HostileCase) { hc.block("root").U.Fanout = up(4) }},
		{"fanout-2048", func(hc *HostileCase) { hc.block("root").U.Fanout = up(2048) }},
		{"fanout-2^63", func(hc *HostileCase) { hc.block("ch").U.Fanout = up(1 << 63) }},
		// powers of two far above the permitted width: nothing may be sized from them
		{"fanout-2^62", func(hc *HostileCase) { hc.block("root").U.Fanout = up(1 << 62) }},
		{"fanout-2^40", func(hc *HostileCase) { hc.block("root").U.Fanout = up(1 << 40) }},
		{"fanout-2^28", func(hc *HostileCase) { hc.block("root").U.Fanout = up(1 << 28) }},
		{"fanout-2^62-child", func(hc *HostileCase) { hc.block("ch").U.Fanout = up(1 << 62) }},
		{"fanout-2^28-child", func(hc *HostileCase) { hc.block("ch").U.Fanout = up(1 << 28) }},
		{"dup-bucket", func(hc *HostileCase) {
			b := hc.block("root")
			b.Links = append(b.Links, b.Links[len(b.Links)-1])
		}},
		{"extra-links", func(hc *HostileCase) {
			b := hc.block("gc")
			b.Links = append(b.Links, HLink{Name: sp("7extra"), Tsize: ip(1), Target: "t0"}, HLink{Name: sp("7"), Tsize: ip(1), Target: "t1"})
		}},
		{"no-links-root", func(hc *HostileCase) { hc.block("root").Links = nil }},
		{"long-chain-name", func(hc *HostileCase) {
			b := hc.block("gc")
			b.Links[0].Name = sp((*b.Links[0].Name)[:1])
			b.Links[0].Target = "t0"
		}},
	}
	return ms
}

// baseFile: a valid three-level file "abcdefghi".
func baseFile() *HostileCase {
	hc := &HostileCase{Fam: "hostile", Root: "root", Names: []string{"a"}}
	fileU := func(fs uint64, bs ...uint64) *HUnixFS { return &HUnixFS{Type: tp(2), FileSize: up(fs), BlockSizes: bs} }
	hc.Blocks = []HBlock{
		{ID: "l1", IsRaw: true, Raw: []byte("abc")},
		{ID: "l2", DataKind: "unixfs", U: &HUnixFS{Type: tp(2), HasData: true, Data: []byte("de"), FileSize: up(2)}},
		{ID: "l3", IsRaw: true, Raw: []byte("fgh")},
		{ID: "l4", IsRaw: true, Raw: []byte("i")},
		{ID: "dir", DataKind: "unixfs", U: &HUnixFS{Type: tp(1)}, Links: []HLink{{Name: sp("x"), Tsize: ip(3), Target: "l1"}}},
		{ID: "sym", DataKind: "unixfs", U: &HUnixFS{Type: tp(4), HasData: true, Data: []byte("target")}},
		{ID: "shard", DataKind: "unixfs", U: shardU(8)},
		{ID: "nodata", DataKind: "none"},
		{ID: "garbage", DataKind: "garbage"},
		{ID: "inner", DataKind: "unixfs", U: fileU(4, 3, 1), Links: []HLink{{Name: sp(""), Tsize: ip(3), Target: "l3"}, {Name: sp(""), Tsize: ip(1), Target: "l4"}}},
		{ID: "root", DataKind: "unixfs", U: fileU(9, 3, 2, 4), Links: []HLink{
			{Name: sp(""), Tsize: ip(3), Target: "l1"}, {Name: sp(""), Tsize: ip(10), Target: "l2"}, {Name: sp(""), Tsize: ip(110), Target: "inner"}}},
	}
	return hc
}

func fileMutators() []mutator {
	return []mutator{
		{"bs-fewer", func(hc *HostileCase) { hc.block("root").U.BlockSizes = []uint64{3, 2} }},
		{"bs-more", func(hc *HostileCase) { hc.block("root").U.BlockSizes = []uint64{3, 2, 4, 1} }},
		{"bs-absent", func(hc *HostileCase) { hc.block("root").U.BlockSizes = nil }},
		{"bs-absent-inner", func(hc *HostileCase) { hc.block("inner").U.BlockSizes = nil }},
		{"bs-wrong", func(hc *HostileCase) { hc.block("root").U.BlockSizes = []uint64{1, 1, 1} }},
		{"bs-huge", func(hc *HostileCase) { hc.block("root").U.BlockSizes = []uint64{1<<64 - 1, 1 << 63, 1<<63 - 1} }},
		{"bs-zero", func(hc *HostileCase) { hc.block("root").U.BlockSizes = []uint64{0, 0, 0} }},
		{"fs-absent", func(hc *HostileCase) { hc.block("root").U.FileSize = nil }},
		{"fs-wrong", func(hc *HostileCase) { hc.block("root").U.FileSize = up(100) }},
		{"fs-huge", func(hc *HostileCase) { hc.block("root").U.FileSize = up(1<<63 + 5) }},
		{"fs-zero", func(hc *HostileCase) { hc.block("root").U.FileSize = up(0) }},
		{"tsize-absent", func(hc *HostileCase) { hc.block("root").Links[0].Tsize = nil }},
		{"tsize-small", func(hc *HostileCase) { hc.block("root").Links[0].Tsize = ip(1) }},
		{"tsize-large", func(hc *HostileCase) { hc.block("root").Links[0].Tsize = ip(1 << 40) }},
		{"tsize-inner-absent", func(hc *HostileCase) { hc.block("inner").Links[1].Tsize = nil }},
		{"child-dir", func(hc *HostileCase) { hc.block("root").Links[1].Target = "dir" }},
		{"child-sym", func(hc *HostileCase) { hc.block("root").Links[1].Target = "sym" }},
		{"child-shard", func(hc *HostileCase) { hc.block("root").Links[2].Target = "shard" }},
		{"child-nodata", func(hc *HostileCase) { hc.block("root").Links[1].Target = "nodata" }},
		{"child-garbage", func(hc *HostileCase) { hc.block("root").Links[2].Target = "garbage" }},
		{"link-missing", func(hc *HostileCase) { hc.block("root").Links[1].Missing = true }},
		{"inner-link-missing", func(hc *HostileCase) { hc.block("inner").Links[0].Missing = true }},
		// an interior node whose own UnixFS data is absent / undecodable while its links are intact, over raw or dag-pb children
		{"inner-nodata", func(hc *HostileCase) { hc.block("inner").DataKind = "none" }},
		{"inner-garbage", func(hc *HostileCase) { hc.block("inner").DataKind = "garbage" }},
		{"inner-pb-kids", func(hc *HostileCase) {
			hc.block("inner").Links = []HLink{{Name: sp(""), Tsize: ip(10), Target: "l2"}, {Name: sp(""), Tsize: ip(10), Target: "l2"}}
			hc.block("inner").U.BlockSizes = []uint64{2, 2}
		}},
		{"root-bs-none-pb-kids", func(hc *HostileCase) {
			hc.block("root").Links = []HLink{{Name: sp(""), Tsize: ip(110), Target: "inner"}, {Name: sp(""), Tsize: ip(110), Target: "inner"}}
			hc.block("root").U.BlockSizes = nil
		}},
		{"leaf-pb-nodatafield", func(hc *HostileCase) { hc.block("l2").U.HasData = false }},
		{"leaf-empty", func(hc *HostileCase) { hc.block("l1").Raw = []byte{} }},
		{"root-type-raw", func(hc *HostileCase) { hc.block("root").U.Type = tp(0) }},
		{"inner-type-raw", func(hc *HostileCase) { hc.block("inner").U.Type = tp(0) }},
		{"root-has-data", func(hc *HostileCase) { hc.block("root").U.HasData = true; hc.block("root").U.Data = []byte("XYZ") }},
		{"names-set", func(hc *HostileCase) { hc.block("root").Links[0].Name = sp("named") }},
		{"names-absent", func(hc *HostileCase) { hc.block("root").Links[2].Name = nil }},
		{"no-links", func(hc *HostileCase) { hc.block("root").Links = nil }},
		{"self-similar", func(hc *HostileCase) {
			// a DAG sharing one subtree many times: legitimately long content
			hc.block("root").Links = []HLink{{Name: sp(""), Tsize: ip(110), Target: "inner"}, {Name: sp(""), Tsize: ip(110), Target: "inner"},
				{Name: sp(""), Tsize: ip(110), Target: "inner"}}
			hc.block("root").U.BlockSizes = []uint64{4, 4, 4}
			hc.block("root").U.FileSize = up(12)
		}},
	}
}

func baseDir() *HostileCase {
	hc := &HostileCase{Fam: "hostile", Root: "root", Names: []string{"a", "b", "", "zz"}}
	hc.Blocks = []HBlock{
		{ID: "t0", IsRaw: true, Raw: []byte("target zero")},
		{ID: "root", DataKind: "unixfs", U: &HUnixFS{Type: tp(1)}, Links: []HLink{{Name: sp("a"), Tsize: ip(11), Target: "t0"}, {Name: sp("b"), Tsize: ip(11), Target: "t0"}}},
	}
	return hc
}

func dirMutators() []mutator {
	return []mutator{
		{"name-absent", func(hc *HostileCase) { hc.block("root").Links[0].Name = nil }},
		{"names-dup", func(hc *HostileCase) { hc.block("root").Links[1].Name = sp("a") }},
		{"tsize-absent", func(hc *HostileCase) { hc.block("root").Links[1].Tsize = nil }},
		{"link-missing", func(hc *HostileCase) { hc.block("root").Links[0].Missing = true }},
		{"has-blocksizes", func(hc *HostileCase) {
			hc.block("root").U.BlockSizes = []uint64{1, 2, 3}
			hc.block("root").U.FileSize = up(7)
		}},
		{"has-fanout", func(hc *HostileCase) { hc.block("root").U.Fanout = up(3); hc.block("root").U.HashType = up(1) }},
		{"type-metadata", func(hc *HostileCase) { hc.block("root").U.Type = tp(3) }},
		{"type-symlink", func(hc *HostileCase) { hc.block("root").U.Type = tp(4) }},
		{"no-links", func(hc *HostileCase) { hc.block("root").Links = nil }},
	}
}

func mutateAll(tag string, base func() *HostileCase, ms []mutator, pairs bool) []*HostileCase {
	var out []*HostileCase
	b := base()
	b.ID = tag + "-base"
	b.Class = "hostile"
	out = append(out, b)
	for i, m := range ms {
		c := base().clone()
		m.f(c)
		c.ID = fmt.Sprintf("%s-%s", tag, m.name)
		c.Class = "hostile"
		out = append(out, c)
		if pairs {
			for j := i + 1; j < len(ms); j++ {
				c2 := base().clone()
				func() {
					defer func() { recover() }() // a pair may not compose (e.g. both remove the links)
					m.f(c2)
					ms[j].f(c2)
					c2.ID = fmt.Sprintf("%s-%s+%s", tag, m.name, ms[j].name)
					c2.Class = "hostile"
					out = append(out, c2)
				}()
			}
		}
	}
	return out
}

func mutateTriples(tag string, base func() *HostileCase, ms []mutator) []*HostileCase {
	var out []*HostileCase
	for i := range ms {
		for j := i + 1; j < len(ms); j++ {
			for k := j + 1; k < len(ms); k++ {
				c := base().clone()
				func() {
					defer func() { recover() }()
					ms[i].f(c)
					ms[j].f(c)
					ms[k].f(c)
					c.ID = fmt.Sprintf("%s-%s+%s+%s", tag, ms[i].name, ms[j].name, ms[k].name)
					c.Class = "hostile"
					out = append(out, c)
				}()
			}
		}
	}
	return out
}

// reifyCases: representatives of every input class of C14.
func reifyCases() []*HostileCase {
	var out []*HostileCase
	add := func(class, id string, hc *HostileCase) {
		hc.Fam, hc.Class, hc.ID = "hostile", class, "reify-"+id
		if hc.Names == nil {
			hc.Names = []string{"a", ""}
		}
		out = append(out, hc)
	}
	for _, k := range []string{"bytes", "string", "int", "link", "map", "list", "null", "bool", "float"} {
		add("nonpb", "nonpb-"+k, &HostileCase{NonPB: k})
	}
	t0 := HBlock{ID: "t0", IsRaw: true, Raw: []byte("target zero")}
	l1 := HBlock{ID: "l1", IsRaw: true, Raw: []byte("abc")}
	links := []HLink{{Name: sp("a"), Tsize: ip(11), Target: "t0"}}
	one := func(root HBlock) *HostileCase {
		root.ID = "root"
		return &HostileCase{Root: "root", Blocks: []HBlock{t0, l1, root}}
	}
	add("nodata", "nodata-links", one(HBlock{DataKind: "none", Links: links}))
	add("nodata", "nodata-nolinks", one(HBlock{DataKind: "none"}))
	add("garbage", "garbage-links", one(HBlock{DataKind: "garbage", Links: links}))
	add("garbage", "garbage-nolinks", one(HBlock{DataKind: "garbage"}))
	flinks := []HLink{{Name: sp(""), Tsize: ip(3), Target: "l1"}}
	for _, ty := range []int64{0, 2} {
		add("file", fmt.Sprintf("type%d-links", ty), one(HBlock{DataKind: "unixfs", U: &HUnixFS{Type: tp(ty), FileSize: up(3), BlockSizes: []uint64{3}}, Links: flinks}))
		add("file", fmt.Sprintf("type%d-links-nofs", ty), one(HBlock{DataKind: "unixfs", U: &HUnixFS{Type: tp(ty), BlockSizes: []uint64{3}}, Links: flinks}))
		add("file", fmt.Sprintf("type%d-links-bare", ty), one(HBlock{DataKind: "unixfs", U: &HUnixFS{Type: tp(ty)}, Links: flinks}))
		add("file", fmt.Sprintf("type%d-inline", ty), one(HBlock{DataKind: "unixfs", U: &HUnixFS{Type: tp(ty), HasData: true, Data: []byte("inline data"), FileSize: up(11)}}))
		add("file", fmt.Sprintf("type%d-empty", ty), one(HBlock{DataKind: "unixfs", U: &HUnixFS{Type: tp(ty)}}))
		add("file", fmt.Sprintf("type%d-mode", ty), one(HBlock{DataKind: "unixfs", U: &HUnixFS{Type: tp(ty), HasData: true, Data: []byte("m"), Mode: u32(0o600)}}))
	}
	// wide file nodes: 1023, 1024 and 1025 children (with as many BlockSizes), and a plain directory as wide
	for _, n := range []int{174, 1023, 1024, 1025, 2048} {
		var wl []HLink
		var bs []uint64
		for i := 0; i < n; i++ {
			wl = append(wl, HLink{Name: sp(""), Tsize: ip(3), Target: "l1"})
			bs = append(bs, 3)
		}
		add("file", fmt.Sprintf("wide-file-%d", n), one(HBlock{DataKind: "unixfs", U: &HUnixFS{Type: tp(2), FileSize: up(uint64(3 * n)), BlockSizes: bs}, Links: wl}))
	}
	// files whose length is a whole number of 32 KiB / 256 KiB steps (two equal leaves)
	for _, half := range []int{16384, 32768, 131072} {
		leaf := HBlock{ID: "big", IsRaw: true, Raw: bytes.Repeat([]byte{7}, half)}
		hc := &HostileCase{Root: "root", Blocks: []HBlock{t0, l1, leaf, {ID: "root", DataKind: "unixfs",
			U:     &HUnixFS{Type: tp(2), FileSize: up(uint64(2 * half)), BlockSizes: []uint64{uint64(half), uint64(half)}},
			Links: []HLink{{Name: sp(""), Tsize: ip(int64(half)), Target: "big"}, {Name: sp(""), Tsize: ip(int64(half)), Target: "big"}}}}}
		add("file", fmt.Sprintf("file-2x%d", half), hc)
	}
	// link maps and plain directories with one to six named links: every name is addressable, no other is
	for n := 1; n <= 6; n++ {
		var ls []HLink
		names := []string{}
		for i := 0; i < n; i++ {
			nm := string(rune('a' + i))
			ls = append(ls, HLink{Name: sp(nm), Tsize: ip(11), Target: "t0"})
			names = append(names, nm)
		}
		names = append(names, "0", "zz", "")
		for _, kind := range []string{"nodata", "symlink", "dir"} {
			root := HBlock{DataKind: "none", Links: ls}
			class := "nodata"
			switch kind {
			case "symlink":
				root, class = HBlock{DataKind: "unixfs", U: &HUnixFS{Type: tp(4), HasData: true, Data: []byte("t")}, Links: ls}, "linkmap"
			case "dir":
				root, class = HBlock{DataKind: "unixfs", U: &HUnixFS{Type: tp(1)}, Links: ls}, "dir"
			}
			hc := one(root)
			hc.Names = names
			add(class, fmt.Sprintf("named-%s-%d", kind, n), hc)
		}
	}
	// roots that carry a modification time (second 0 = 1970-01-01, what reproducible builds stamp; before 1970; with nanoseconds)
	i64 := func(v int64) *int64 { return &v }
	for mi, mt := range []*HUnixFS{{MtimeSec: i64(0)}, {MtimeSec: i64(0), MtimeNs: u32(0)}, {MtimeSec: i64(1)}, {MtimeSec: i64(-1), MtimeNs: u32(999999999)},
		{MtimeSec: i64(1700000000), MtimeNs: u32(5)}} {
		with := func(u *HUnixFS) *HUnixFS { u.MtimeSec, u.MtimeNs = mt.MtimeSec, mt.MtimeNs; return u }
		add("file", fmt.Sprintf("mtime%d-file-links", mi), one(HBlock{DataKind: "unixfs", U: with(&HUnixFS{Type: tp(2), FileSize: up(3), BlockSizes: []uint64{3}}), Links: flinks}))
		add("file", fmt.Sprintf("mtime%d-file-inline", mi), one(HBlock{DataKind: "unixfs", U: with(&HUnixFS{Type: tp(2), HasData: true, Data: []byte("inline data"), FileSize: up(11)})}))
		add("file", fmt.Sprintf("mtime%d-raw-inline", mi), one(HBlock{DataKind: "unixfs", U: with(&HUnixFS{Type: tp(0), HasData: true, Data: []byte("r")})}))
		add("dir", fmt.Sprintf("mtime%d-dir", mi), one(HBlock{DataKind: "unixfs", U: with(&HUnixFS{Type: tp(1)}), Links: links}))
		add("linkmap", fmt.Sprintf("mtime%d-symlink", mi), one(HBlock{DataKind: "unixfs", U: with(&HUnixFS{Type: tp(4), HasData: true, Data: []byte("t")})}))
		hm := baseHamt()
		with(hm.block("root").U)
		add("hamt", fmt.Sprintf("mtime%d-hamt", mi), hm)
	}
	add("dir", "dir-links", one(HBlock{DataKind: "unixfs", U: &HUnixFS{Type: tp(1)}, Links: links}))
	add("dir", "dir-empty", one(HBlock{DataKind: "unixfs", U: &HUnixFS{Type: tp(1)}}))
	add("linkmap", "metadata", one(HBlock{DataKind: "unixfs", U: &HUnixFS{Type: tp(3), HasData: true, Data: []byte{0x0a, 0x01, 0x78}}, Links: links}))
	add("linkmap", "symlink", one(HBlock{DataKind: "unixfs", U: &HUnixFS{Type: tp(4), HasData: true, Data: []byte("../target")}}))
	add("linkmap", "symlink-links", one(HBlock{DataKind: "unixfs", U: &HUnixFS{Type: tp(4), HasData: true, Data: []byte("t")}, Links: links}))
	add("hamt", "hamt-empty", one(HBlock{DataKind: "unixfs", U: shardU(8)}))
	add("hamt", "hamt-empty-256", one(HBlock{DataKind: "unixfs", U: shardU(256)}))
	hb := baseHamt()
	add("hamt", "hamt-entries", hb)
	bad := func(id string, f func(u *HUnixFS)) {
		u := shardU(8)
		f(u)
		add("badhamt", id, one(HBlock{DataKind: "unixfs", U: u}))
	}
	bad("hamt-hash-wrong", func(u *HUnixFS) { u.HashType = up(0x12) })
	bad("hamt-hash-absent", func(u *HUnixFS) { u.HashType = nil })
	bad("hamt-fanout-absent", func(u *HUnixFS) { u.Fanout = nil })
	bad("hamt-fanout-3", func(u *HUnixFS) { u.Fanout = up(3) })
	bad("hamt-fanout-0", func(u *HUnixFS) { u.Fanout = up(0) })
	bad("hamt-fanout-2048", func(u *HUnixFS) { u.Fanout = up(2048) })
	bad("hamt-bitfield-long", func(u *HUnixFS) { u.Data = []byte{1, 2, 3} })
	for _, ty := range []int64{6, 7, 100, 1<<31 - 1, -1, -1 << 31} {
		add("badtype", fmt.Sprintf("type-%d", ty), one(HBlock{DataKind: "unixfs", U: &HUnixFS{Type: tp(ty)}, Links: links}))
	}
	// DataType varints beyond 32 bits whose low bits spell a known type: still not one of the six types
	for _, wt := range []uint64{1<<32 | 0, 1<<32 | 1, 1<<32 | 2, 1<<32 | 5, 1<<40 | 2, 1<<63 | 1} {
		wt := wt
		add("badtype", fmt.Sprintf("widetype-%d", wt), one(HBlock{DataKind: "unixfs", U: &HUnixFS{WideType: &wt, FileSize: up(3), BlockSizes: []uint64{3}, HashType: up(0x22), Fanout: up(8)}, Links: flinks}))
	}
	return out
}
