package main

import (
	"encoding/json"
	"flag"
	"fmt"
	"math/rand"

	"github.com/ipfs/go-unixfsnode/data/builder"
	"github.com/ipfs/go-unixfsnode/hamt"
)

// HashCase: the two real bit-slicing helpers (exported under the verif build
// tag) on one hash value, for every (offset, width).
type HashCase struct {
	Fam  string `json:"fam"`
	ID   string `json:"id"`
	Pat  []int  `json:"pat"`
	MaxW int    `json:"maxw"`
}

func runHashCase(hc *HashCase, tr *Tr) error {
	b := make([]byte, len(hc.Pat))
	for i, x := range hc.Pat {
		b[i] = byte(x)
	}
	tr.Emit(M{"ev": "reset", "case": caseString(hc)})
	for off := 0; off <= 64; off++ {
		for w := 1; w <= hc.MaxW; w++ {
			ev := M{"ev": "hb", "pat": hc.Pat, "off": off, "w": w, "panic": false, "next": 0, "nextErr": false, "slice": 0, "sliceErr": false}
			if pm := guard(func() {
				v, err := hamt.VerifHashNext(b, off, w)
				ev["next"], ev["nextErr"] = v, err != nil
				v2, err2 := builder.VerifHashSlice(b, off, w)
				ev["slice"], ev["sliceErr"] = v2, err2 != nil
			}); pm != nil {
				ev["panic"] = true
			}
			tr.Emit(ev)
		}
	}
	return nil
}

func init() {
	caseRunners["hash"] = func(b []byte, tr *Tr) error {
		var hc HashCase
		if err := json.Unmarshal(b, &hc); err != nil {
			return err
		}
		return runHashCase(&hc, tr)
	}
	cmds["hash-gen"] = func(args []string) error {
		fs := flag.NewFlagSet("hash-gen", flag.ExitOnError)
		seed := fs.Int64("seed", 1, "seed")
		count := fs.Int("count", 16, "random hashes")
		out := fs.String("out", "", "trace output")
		fs.Parse(args)
		tr, err := NewTr(*out)
		if err != nil {
			return err
		}
		defer tr.Close()
		var pats [][]int
		for k := 0; k < 64; k += 3 {
			p := make([]int, 8)
			p[k/8] = 1 << uint(7-k%8)
			pats = append(pats, p)
		}
		pats = append(pats, []int{255, 255, 255, 255, 255, 255, 255, 255}, []int{170, 85, 170, 85, 170, 85, 170, 85},
			[]int{0, 0, 0, 0, 0, 0, 0, 1}, []int{128, 0, 0, 0, 0, 0, 0, 0})
		r := rand.New(rand.NewSource(*seed))
		for i := 0; i < *count; i++ {
			p := make([]int, 8)
			for j := range p {
				p[j] = r.Intn(256)
			}
			pats = append(pats, p)
		}
		for i, p := range pats {
			if err := runHashCase(&HashCase{Fam: "hash", ID: fmt.Sprintf("hash-%d-%v", i, p), Pat: p, MaxW: 10}, tr); err != nil {
				return err
			}
		}
		return nil
	}
}
