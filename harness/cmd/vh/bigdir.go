package main

import (
	"context"
	"fmt"
	"math/rand"
	"strings"

	unixfsnode "github.com/ipfs/go-unixfsnode"
	"github.com/ipld/go-ipld-prime"
	cidlink "github.com/ipld/go-ipld-prime/linking/cid"
)

// BigDirCase: a directory with hundreds to thousands of entries.  Too large to
// hand to TLC entry by entry, so the map contract is compared in Go (entry by
// entry against the set the harness supplied) and summarised in one trace line.
type BigDirCase struct {
	Fam     string `json:"fam"`
	ID      string `json:"id"`
	Seed    int64  `json:"seed"`
	Builder string `json:"builder"`
	Fanout  int    `json:"fanout"`
	Style   string `json:"style"`
	N       int    `json:"n"`
	NameLen int    `json:"namelen"`
}

func runBigDirCase(bc *BigDirCase, tr *Tr) error {
	r := rand.New(rand.NewSource(bc.Seed))
	st := NewStore()
	targets := putTargets(st)
	base := r.Intn(1 << 20)
	u := make([]string, bc.N+5)
	for i := range u {
		n := nameTemplate(bc.Style, base+i)
		if bc.NameLen > len(n) {
			n += strings.Repeat("x", bc.NameLen-len(n))
		}
		u[i] = n
	}
	ids := r.Perm(bc.N)
	for i := range ids {
		ids[i]++
	}
	lk := make([]int, len(ids))
	est := 0
	for i, id := range ids {
		lk[i] = id % nTargets
		est += len(u[id-1]) + targets[lk[i]].ByteLen()
	}
	dc := &DirCase{Builder: bc.Builder, Fanout: bc.Fanout, Universe: u, Entries: ids, Links: lk}
	tr.Emit(M{"ev": "reset", "case": caseString(bc)})
	ev := M{"ev": "big", "n": bc.N, "builder": bc.Builder, "estimate": est, "e": "nil", "sharded": false,
		"lookupOK": false, "missOK": false, "iterOK": false, "lenOK": false}
	defer func() { tr.Emit(ev) }()
	root, _, err := buildDir(st, dc, targets)
	if err != nil {
		ev["e"] = "err"
		return nil
	}
	b, _ := st.Get(root)
	_, d, err := decodePB(root, b)
	if err == nil && d != nil {
		ev["sharded"] = d.GetType().String() == "HAMTShard"
	}
	ls := st.LinkSystem()
	rootNode, err := loadNode(ls, root)
	if err != nil {
		return err
	}
	var node ipld.Node
	if pm := guard(func() { node, err = unixfsnode.Reify(ipld.LinkContext{Ctx: context.Background()}, rootNode, ls) }); pm != nil || err != nil {
		ev["e"] = "err"
		return nil
	}
	pm := guard(func() {
		ok := true
		for i, id := range ids {
			n, err := node.LookupByString(u[id-1])
			if err != nil {
				ok = false
				break
			}
			l, err := n.AsLink()
			if err != nil || !l.(cidlink.Link).Cid.Equals(targets[lk[i]]) {
				ok = false
				break
			}
		}
		ev["lookupOK"] = ok
		ok = true
		for j := bc.N; j < len(u); j++ {
			if _, err := node.LookupByString(u[j]); err == nil {
				ok = false
			}
		}
		if _, err := node.LookupByString(u[0] + "~"); err == nil {
			ok = false
		}
		ev["missOK"] = ok
		want := map[string]string{}
		for i, id := range ids {
			want[u[id-1]] = targets[lk[i]].String()
		}
		seen := map[string]bool{}
		ok = true
		it := node.MapIterator()
		steps := 0
		for !it.Done() {
			steps++
			if steps > 10*bc.N+100 {
				ok = false
				break
			}
			k, v, err := it.Next()
			if err != nil {
				ok = false
				break
			}
			ks, _ := k.AsString()
			l, lerr := v.AsLink()
			if lerr != nil || seen[ks] || want[ks] != l.(cidlink.Link).Cid.String() {
				ok = false
				break
			}
			seen[ks] = true
		}
		ev["iterOK"] = ok && len(seen) == bc.N
		ev["lenOK"] = node.Length() == int64(bc.N)
	})
	if pm != nil {
		ev["e"] = "panic"
	}
	if len(fmt.Sprint(ev["e"])) == 0 {
		ev["e"] = "nil"
	}
	return nil
}
