package main

import (
	"bufio"
	"encoding/json"
	"fmt"
	"io"
	"os"
	"time"

	"github.com/ipfs/go-cid"
)

// Tr writes one ndjson trace file (one JSON object per line).
type Tr struct {
	f     *os.File
	w     *bufio.Writer
	lines int
	cases int
}

type M = map[string]any

func NewTr(path string) (*Tr, error) {
	f, err := os.Create(path)
	if err != nil {
		return nil, err
	}
	return &Tr{f: f, w: bufio.NewWriterSize(f, 1<<20)}, nil
}

func (t *Tr) Emit(m M) {
	b, err := json.Marshal(m)
	if err != nil {
		panic(err)
	}
	t.w.Write(b)
	t.w.WriteByte('\n')
	t.lines++
	if m["ev"] == "reset" {
		t.cases++
		// on disk before the case runs: if the library takes the whole process down (a Go fatal error such as out of
		// memory or a stack overflow cannot be recovered), the driver finds which case it was
		t.w.Flush()
	}
}

func (t *Tr) Close() error {
	if err := t.w.Flush(); err != nil {
		return err
	}
	return t.f.Close()
}

func ints(b []byte) []int {
	out := make([]int, len(b))
	for i, x := range b {
		out[i] = int(x)
	}
	return out
}

func classes(fw interface{ classOf(cid.Cid) int }, cs []cid.Cid) []int {
	out := make([]int, len(cs))
	for i, c := range cs {
		out[i] = fw.classOf(c)
	}
	return out
}

// panicErr marks an API call that panicked (recovered by guard).
type panicErr struct{ msg string }

func (p panicErr) Error() string { return "panic: " + p.msg }

// guard runs one API call of the library under recover().
func guard(f func()) (pe error) {
	defer func() {
		if r := recover(); r != nil {
			pe = panicErr{fmt.Sprint(r)}
		}
	}()
	f()
	return nil
}

func errClass(err error) string {
	if err == nil {
		return "nil"
	}
	if _, ok := err.(panicErr); ok {
		return "panic"
	}
	if _, ok := err.(hangErr); ok {
		return "hang"
	}
	if err == io.EOF {
		return "eof"
	}
	return "err"
}

// hangErr: the call did not return within its (generous) time limit.
type hangErr struct{ d time.Duration }

func (h hangErr) Error() string { return fmt.Sprintf("call did not return within %v", h.d) }

// guardTimed runs f like guard does, but gives up waiting after d: a library call that blocks for ever (for
// example on opening a fifo) is an outcome to report, not a reason for the harness to hang.
//
// Once one call of this process has hung, later calls are given one second only (a change that makes one case
// hang usually makes hundreds hang; the report needs one).
func guardTimed(d time.Duration, f func()) error {
	if hangSeen && d > time.Second {
		d = time.Second
	}
	ch := make(chan error, 1)
	go func() { ch <- guard(f) }()
	select {
	case err := <-ch:
		return err
	case <-time.After(d):
		hangSeen = true
		return hangErr{d}
	}
}

var hangSeen bool

// caseString renders a case descriptor as a JSON *string* field: the trace
// specifications never look inside it, the driver uses it to re-execute.
func caseString(c any) string {
	b, err := json.Marshal(c)
	if err != nil {
		panic(err)
	}
	return string(b)
}
