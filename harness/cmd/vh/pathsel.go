package main

import (
	"bytes"
	"context"
	"encoding/json"
	"flag"
	"fmt"
	"sort"
	"strings"

	"github.com/ipfs/go-cid"
	unixfsnode "github.com/ipfs/go-unixfsnode"
	"github.com/ipfs/go-unixfsnode/data/builder"
	dagpb "github.com/ipld/go-codec-dagpb"
	"github.com/ipld/go-ipld-prime"
	"github.com/ipld/go-ipld-prime/datamodel"
	cidlink "github.com/ipld/go-ipld-prime/linking/cid"
	"github.com/ipld/go-ipld-prime/node/basicnode"
	"github.com/ipld/go-ipld-prime/traversal"
	"github.com/ipld/go-ipld-prime/traversal/selector"
	selbuilder "github.com/ipld/go-ipld-prime/traversal/selector/builder"
	"github.com/multiformats/go-multihash"
)

// PNode is a tree node of the TLC path-selector cases (spec/PathOps.tla).
type PNode struct {
	Kind string `json:"kind"`
	Kids []PEnt `json:"kids"`
}
type PEnt struct {
	Name string `json:"name"`
	Node PNode  `json:"node"`
}

type PathCase struct {
	Fam     string   `json:"fam"`
	ID      string   `json:"id"`
	Tree    PNode    `json:"tree"`
	Segs    []string `json:"segs"`
	Target  string   `json:"target"`
	MP      bool     `json:"mp"`
	Pres    int      `json:"pres"`    // path-string presentation
	Names   int      `json:"names"`   // renaming table (plain / unicode+space+percent)
	Entry   string   `json:"entry"`   // builder | selector (UnixFSPathSelector convenience)
	Passive bool     `json:"passive"` // visitor does not touch matched nodes (C05/C20 load accounting)
	Consume bool     `json:"consume"` // visitor is BytesConsumingMatcher (C06 entity access)
	MissK   int      `json:"missk"`   // make the k-th block of the target entity unavailable (0 = none)
	BigFile bool     `json:"bigfile"` // multi-block files are 1 MiB + 5 bytes in default-sized chunks (five leaves)
	StaleFS bool     `json:"stalefs"` // multi-block files carry a FileSize that covers their first child only
	Again   bool     `json:"again"`   // the traversal is run twice in this process; the second run is the one recorded
	Decoy   bool     `json:"decoy"`   // first the same path is walked from the root of ANOTHER tree (same shape and names, other file bytes) through the same link system
}

// pathStaleFS is PathCase.StaleFS of the case being built
var pathStaleFS bool

// pathBigFile is PathCase.BigFile of the case being built
var pathBigFile bool

// pathSaltOffset shifts the file contents of the tree being built (the decoy tree of a case: same shape and names, other bytes)
var pathSaltOffset int

var renames = []map[string]string{
	{"a": "a", "b": "b", ".": ".", "..": "..", "x": "absent"},
	{"a": "ü n%41 é", "b": "sp ace%2F", ".": ".", "..": "..", "x": "nö such"},
	{"a": "2024", "b": "7", ".": ".", "..": "..", "x": "99"},    // names that look like list indices
	{"a": "a", "b": "Hash", ".": ".", "..": "..", "x": "Links"}, // absent names that are dag-pb field names
	{"a": "Name", "b": "b", ".": ".", "..": "..", "x": "Data"},
}

// allRenames adds two tables taken from the mined fanout-8 universe (the sharded directories of the path trees
// have fanout 8): the two root entries "a" and "." share 24 hash bits (a chain of 8 shards below the directory's root), and an absent
// name that is a proper suffix of the member "a" and hashes into the member's bucket.
func allRenames() []map[string]string {
	u := mineUniverse(8, "plain")
	return append(append([]map[string]string{}, renames...),
		map[string]string{"a": u[10], ".": u[11], "b": "b", "..": "..", "x": "absent"}, // "a" and "." are the two root entries
		map[string]string{"a": u[8], "b": "b", ".": ".", "..": "..", "x": u[9]},
		// names of 70..130 bytes (a HAMT hashes the whole name, however long)
		map[string]string{"a": "a-" + strings.Repeat("long name ", 7), ".": "dot-" + strings.Repeat("0123456789", 9), "b": "b-" + strings.Repeat("x", 126),
			"..": "dd-" + strings.Repeat("é", 40), "x": "absent-" + strings.Repeat("long name ", 7)})
}

type builtNode struct {
	c       cid.Cid
	size    uint64
	content []byte
	blocks  []cid.Cid // blocks of this entity in depth-first order (the node itself first)
	dw      *DirWalk  // sharded directories: the independent walker's shard table
}

// pathNameIDs numbers the model names of the path trees (the ids the shard tables of the trace use)
var pathNameIDs = map[string]int{"a": 1, ".": 2, "b": 3, "..": 4, "x": 5}

func fileContent(kind string, salt int) []byte {
	if kind == "file1" {
		return []byte{byte(65 + salt), 66, 67}
	}
	// chunks of three bytes: the first chunk occurs twice (the same block is linked twice)
	return []byte{byte(97 + salt), 98, 99, byte(97 + salt), 98, 99, 103}
}

// buildPTree stores the tree; all maps are keyed by the model path ("a/b").
func buildPTree(st *Store, n PNode, path []string, names map[string]string, out map[string]*builtNode) (*builtNode, error) {
	ls := st.LinkSystem()
	key := strings.Join(path, "/")
	salt := len(out) + pathSaltOffset
	switch n.Kind {
	case "file1", "fileN":
		content := fileContent(n.Kind, salt)
		builder.DefaultLinksPerBlock = 2
		before := len(st.order)
		chunker := "size-3"
		if pathBigFile && n.Kind == "fileN" {
			content = make([]byte, 1<<20+5)
			for i := range content {
				content[i] = byte(i*7 + i>>11 + salt)
			}
			chunker = ""
			builder.DefaultLinksPerBlock = 174
		}
		l, sz, err := builder.BuildUnixFSFile(bytes.NewReader(content), chunker, ls)
		if err != nil {
			return nil, err
		}
		bn := &builtNode{c: l.(cidlink.Link).Cid, size: sz, content: content}
		_ = before
		if !pathStaleFS && salt%3 == 2 {
			// every third file carries one more level on top: a root with a single link (nothing below the root of a
			// file at the end of a path is wanted until its bytes are)
			nd, err := dagServ{st}.Get(context.Background(), bn.c)
			if err != nil {
				return nil, err
			}
			wn, err := wrapOne(st, nd, uint64(len(content)))
			if err != nil {
				return nil, err
			}
			bn.c = wn.Cid()
			bn.size, _ = wn.Size()
		}
		if pathStaleFS && n.Kind == "fileN" {
			nd, err := rewriteOwn(st, bn.c, "shortfs", true)
			if err != nil {
				return nil, err
			}
			bn.c = nd.Cid()
			bn.size, _ = nd.Size()
		}
		if fw, err := walkFile(st, bn.c); err == nil {
			for _, b := range fw.Blocks {
				bn.blocks = append(bn.blocks, b.cid)
			}
		}
		out[key] = bn
		return bn, nil
	case "symlink":
		l, sz, err := builder.BuildUnixFSSymlink("some/target", ls)
		if err != nil {
			return nil, err
		}
		bn := &builtNode{c: l.(cidlink.Link).Cid, size: sz}
		bn.blocks = []cid.Cid{bn.c}
		out[key] = bn
		return bn, nil
	case "dir", "hamt":
		var ents []dagpb.PBLink
		for _, k := range n.Kids {
			child, err := buildPTree(st, k.Node, append(append([]string{}, path...), k.Name), names, out)
			if err != nil {
				return nil, err
			}
			e, err := builder.BuildUnixFSDirectoryEntry(names[k.Name], int64(child.size), cidlink.Link{Cid: child.c})
			if err != nil {
				return nil, err
			}
			ents = append(ents, e)
		}
		var l ipld.Link
		var sz uint64
		var err error
		if n.Kind == "hamt" {
			l, sz, err = builder.BuildUnixFSShardedDirectory(8, multihash.MURMUR3X64_64, ents, ls)
		} else {
			l, sz, err = builder.BuildUnixFSDirectory(ents, ls)
		}
		if err != nil {
			return nil, err
		}
		bn := &builtNode{c: l.(cidlink.Link).Cid, size: sz}
		if n.Kind == "hamt" {
			univ := make([]string, len(pathNameIDs))
			for m, id := range pathNameIDs {
				univ[id-1] = names[m]
			}
			if dw, err := walkDir(st, bn.c, univ); err == nil {
				for _, s := range dw.Shards {
					bn.blocks = append(bn.blocks, s.cid)
				}
				bn.dw = dw
			}
		} else {
			bn.blocks = []cid.Cid{bn.c}
		}
		out[key] = bn
		return bn, nil
	}
	return nil, fmt.Errorf("unknown node kind %q", n.Kind)
}

func pathString(segs []string, pres int) string {
	switch pres % 5 {
	case 1:
		return "/" + strings.Join(segs, "/")
	case 2:
		return strings.Join(segs, "/") + "/"
	case 3:
		return "//" + strings.Join(segs, "///") + "//"
	case 4:
		return "/" + strings.Join(segs, "/") + "/"
	}
	return strings.Join(segs, "/")
}

func targetSpec(t string) selbuilder.SelectorSpec {
	switch t {
	case "match":
		return unixfsnode.MatchUnixFSSelector
	case "preload":
		return unixfsnode.MatchUnixFSPreloadSelector
	case "entity":
		return unixfsnode.MatchUnixFSEntitySelector
	}
	return unixfsnode.ExploreAllRecursivelySelector
}

type pathClasses struct {
	m    map[string]int
	cids []cid.Cid
}

func (pc *pathClasses) classOf(c cid.Cid) int {
	if n, ok := pc.m[key(c)]; ok {
		return n
	}
	return 0
}

func runPathCase(pc *PathCase, tr *Tr) error {
	tr.Emit(M{"ev": "reset", "case": caseString(pc)})
	var prev M
	if pc.Again {
		// the same traversal has already run once in this process (fresh store, link system and root node each time)
		var err error
		if prev, err = pathOnce(pc); err != nil {
			return err
		}
	}
	ev, err := pathOnce(pc)
	if err != nil {
		return err
	}
	ev["again"] = pc.Again
	ev["prevLoads"] = []int{}
	if prev != nil {
		ev["prevLoads"] = prev["loads"]
	}
	tr.Emit(ev)
	return nil
}

// pathOnce builds the tree in a fresh store, runs the traversal and returns its "walk" event.
func pathOnce(pc *PathCase) (M, error) {
	st := NewStore()
	rn := allRenames()
	names := rn[pc.Names%len(rn)]
	back := map[string]string{}
	for k, v := range names {
		back[v] = k
	}
	built := map[string]*builtNode{}
	pathStaleFS = pc.StaleFS
	pathBigFile = pc.BigFile
	root, err := buildPTree(st, pc.Tree, nil, names, built)
	if err != nil {
		return nil, fmt.Errorf("%s: %w", pc.ID, err)
	}
	// block classes: every block of the tree in depth-first order of the model tree
	cls := &pathClasses{m: map[string]int{}}
	var order func(n PNode, path []string)
	blocksOf := map[string][]int{}
	var blockTable []M
	order = func(n PNode, path []string) {
		k := strings.Join(path, "/")
		for _, c := range built[k].blocks {
			if _, ok := cls.m[key(c)]; !ok {
				cls.cids = append(cls.cids, c)
				cls.m[key(c)] = len(cls.cids)
			}
			blocksOf[k] = append(blocksOf[k], cls.m[key(c)])
		}
		pp := append([]string{}, path...)
		// sharded directories: the shard table (block classes renumbered to this trace's classes; value links are not
		// needed and left 0), from which the trace specification derives the shards a lookup visits
		shards := []M{}
		if dw := built[k].dw; dw != nil {
			for _, sh := range dw.Shards {
				slots := []M{}
				for _, sl := range sh.Slots {
					slots = append(slots, M{"b": sl.B, "t": sl.T, "name": sl.Name, "link": 0, "idx": sl.Idx})
				}
				shards = append(shards, M{"parent": sh.Parent, "c": cls.m[key(sh.cid)], "slots": slots})
			}
		}
		blockTable = append(blockTable, M{"path": pp, "cls": append([]int{}, blocksOf[k]...), "kind": n.Kind, "S": shards})
		for _, kid := range n.Kids {
			order(kid.Node, append(append([]string{}, path...), kid.Name))
		}
	}
	order(pc.Tree, nil)

	real := make([]string, len(pc.Segs))
	for i, s := range pc.Segs {
		real[i] = names[s]
	}
	ps := pathString(real, pc.Pres)
	var selNode datamodel.Node
	if pc.Entry == "selector" {
		selNode = unixfsnode.UnixFSPathSelector(ps)
	} else {
		selNode = unixfsnode.UnixFSPathSelectorBuilder(ps, targetSpec(pc.Target), pc.MP)
	}
	sel, err := selector.CompileSelector(selNode)
	if err != nil {
		return M{"ev": "walk", "segIds": []int{}, "segDigits": [][]int{}, "e": "compile", "tree": pc.Tree, "segs": pc.Segs, "target": pc.Target, "mp": pc.MP, "matches": []M{},
			"loads": []int{}, "failed": []int{}, "blocks": []M{}, "passive": pc.Passive, "consume": pc.Consume, "missing": []int{}}, nil
	}
	ls := st.LinkSystem()
	unixfsnode.AddUnixFSReificationToLinkSystem(ls)
	rootNode, err := loadNode(ls, root.c)
	if err != nil {
		return nil, err
	}
	st.logLoads = true
	missing := []int{}
	if pc.MissK > 0 {
		if bs := blocksOf[strings.Join(pc.Segs, "/")]; pc.MissK <= len(bs) {
			c := cls.cids[bs[pc.MissK-1]-1]
			if !c.Equals(root.c) {
				st.missing[key(c)] = true
				missing = append(missing, bs[pc.MissK-1])
			}
		}
	}
	if pc.Decoy {
		// nodes reached at a path from one root say nothing about what the same path leads to from another root
		pathSaltOffset = 11
		built2 := map[string]*builtNode{}
		root2, err2 := buildPTree(st, pc.Tree, nil, names, built2)
		pathSaltOffset = 0
		if err2 == nil && !root2.c.Equals(root.c) {
			if rn2, err := loadNode(ls, root2.c); err == nil {
				p2 := traversal.Progress{Cfg: &traversal.Config{Ctx: context.Background(), LinkSystem: *ls,
					LinkTargetNodePrototypeChooser: dagpb.AddSupportToChooser(basicnode.Chooser)}}
				guard(func() {
					p2.WalkMatching(rn2, sel, func(p traversal.Progress, n datamodel.Node) error {
						if n.Kind() == datamodel.Kind_Bytes {
							n.AsBytes()
						}
						return nil
					})
				})
			}
		}
		st.TakeLoads()
	}
	matches := []M{}
	prog := traversal.Progress{Cfg: &traversal.Config{
		Ctx:                            context.Background(),
		LinkSystem:                     *ls,
		LinkTargetNodePrototypeChooser: dagpb.AddSupportToChooser(basicnode.Chooser),
	}}
	var werr error
	pm := guard(func() {
		werr = prog.WalkMatching(rootNode, sel, func(p traversal.Progress, n datamodel.Node) error {
			var mpath []string
			for _, s := range p.Path.Segments() {
				if b, ok := back[s.String()]; ok {
					mpath = append(mpath, b)
				} else {
					mpath = append(mpath, "?"+s.String())
				}
			}
			if mpath == nil {
				mpath = []string{}
			}
			m := M{"path": mpath, "kind": n.Kind().String(), "bytesOK": false, "names": []string{}, "linksOK": true}
			if pc.Consume {
				matches = append(matches, m)
				return unixfsnode.BytesConsumingMatcher(p, n)
			}
			if !pc.Passive {
				k := strings.Join(mpath, "/")
				switch n.Kind() {
				case datamodel.Kind_Bytes:
					b, err := n.AsBytes()
					if bn, ok := built[k]; ok && err == nil {
						m["bytesOK"] = bytes.Equal(b, bn.content)
					}
				case datamodel.Kind_Map:
					nm := []string{}
					it := n.MapIterator()
					// the listing is collected first and read afterwards: the matched map's pairs stay what they were
					var kn, vn []datamodel.Node
					for it != nil && !it.Done() {
						kk, vv, err := it.Next()
						if err != nil {
							nm = append(nm, "!err")
							break
						}
						kn, vn = append(kn, kk), append(vn, vv)
					}
					linksOK := true
					for i := range kn {
						ks, _ := kn[i].AsString()
						b, ok := back[ks]
						if ok {
							nm = append(nm, b)
						} else {
							nm = append(nm, "?"+ks)
						}
						// every key maps to the link of the entry of that name
						child := b
						if k != "" {
							child = k + "/" + b
						}
						l, err := vn[i].AsLink()
						if bn, have := built[child]; !ok || !have || err != nil || !l.(cidlink.Link).Cid.Equals(bn.c) {
							linksOK = false
						}
					}
					sort.Strings(nm)
					m["names"] = nm
					m["linksOK"] = linksOK
				}
			}
			matches = append(matches, m)
			return nil
		})
	})
	if pm != nil {
		werr = pm
	}
	loads, failed := st.TakeLoads()
	segIDs, segDigits := []int{}, [][]int{}
	for i, sg := range pc.Segs {
		segIDs = append(segIDs, pathNameIDs[sg])
		segDigits = append(segDigits, digitsOf(real[i], 3)) // the sharded directories of these trees have fanout 8
	}
	return M{"ev": "walk", "segIds": segIDs, "segDigits": segDigits, "e": errClass(werr), "tree": pc.Tree, "segs": pc.Segs, "target": pc.Target, "mp": pc.MP, "matches": matches,
		"loads": classes(cls, loads), "failed": classes(cls, failed), "blocks": blockTable, "passive": pc.Passive || pc.Consume, "consume": pc.Consume, "missing": missing, "pathstr": ps}, nil
}

func init() {
	caseRunners["path"] = func(b []byte, tr *Tr) error {
		var pc PathCase
		if err := json.Unmarshal(b, &pc); err != nil {
			return err
		}
		return runPathCase(&pc, tr)
	}
	cmds["path-replay"] = func(args []string) error {
		fs := flag.NewFlagSet("path-replay", flag.ExitOnError)
		cases := fs.String("cases", "", "TLC-exported cases")
		passive := fs.Bool("passive", false, "passive visitor (load accounting)")
		consume := fs.Bool("consume", false, "visitor is BytesConsumingMatcher; also one run per unavailable block of the target")
		out := fs.String("out", "", "trace output")
		fs.Parse(args)
		tr, err := NewTr(*out)
		if err != nil {
			return err
		}
		defer tr.Close()
		i := 0
		return readJSONLines(*cases, func(raw json.RawMessage) error {
			var c struct {
				Tree   PNode    `json:"tree"`
				Segs   []string `json:"segs"`
				Target string   `json:"target"`
				MP     bool     `json:"mp"`
			}
			if err := json.Unmarshal(raw, &c); err != nil {
				return err
			}
			if c.Segs == nil {
				c.Segs = []string{}
			}
			pc := &PathCase{Fam: "path", ID: fmt.Sprintf("path-%d", i), Tree: c.Tree, Segs: c.Segs, Target: c.Target, MP: c.MP,
				Pres: i % 5, Names: (i / 5) % 8, Entry: "builder", Passive: *passive, Decoy: !*passive && !*consume && i%2 == 0,
				BigFile: !*passive && !*consume && (i%16 == 3 || (c.Target == "preload" && i%3 == 1))}
			if c.Target == "match" && !c.MP && i%3 == 0 {
				pc.Entry = "selector"
			}
			i++
			if !*consume {
				if err := runPathCase(pc, tr); err != nil {
					return err
				}
				if !*passive {
					return nil
				}
				// load accounting: the same traversal once more in this process, on a fresh store, link system and root
				// node - what it requests must not depend on what earlier traversals have already seen
				again := *pc
				again.ID += "-again"
				again.Again = true
				return runPathCase(&again, tr)
			}
			pc.Consume = true
			pc.StaleFS = i%2 == 0
			if err := runPathCase(pc, tr); err != nil {
				return err
			}
			// every single block of the target entity unavailable (at most 8 per case)
			for k := 1; k <= 8; k++ {
				c := *pc
				c.MissK = k
				c.ID = fmt.Sprintf("%s-miss%d", pc.ID, k)
				if err := runPathCase(&c, tr); err != nil {
					return err
				}
			}
			return nil
		})
	}
}
