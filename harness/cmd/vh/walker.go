package main

import (
	"fmt"

	"github.com/gogo/protobuf/proto"
	"github.com/ipfs/boxo/ipld/merkledag"
	pb "github.com/ipfs/boxo/ipld/unixfs/pb"
	blocks "github.com/ipfs/go-block-format"
	"github.com/ipfs/go-cid"
)

// The walker is the harness's *independent* reading of a stored DAG: it
// decodes block bytes with boxo's merkledag codec and the gogo-generated
// unixfs_pb message, never with the library under test.  Its output is the
// block table the TLA+ trace specifications reason about.

type WBlock struct {
	Parent int    `json:"parent"`
	Lo     int64  `json:"lo"`
	Hi     int64  `json:"hi"`
	Leaf   bool   `json:"leaf"`
	C      int    `json:"c"`
	Kind   string `json:"kind"` // raw | pbleaf | node
	Enc    int    `json:"enc"`  // encoded length of the block
	// declared values found in the block (for C11), -1 when absent
	FileSize   int64   `json:"fsize"`
	BlockSizes []int64 `json:"bsizes"`
	Tsizes     []int64 `json:"tsizes"`
	cid        cid.Cid
}

type FileWalk struct {
	Blocks  []WBlock
	Content []byte
	classes map[string]int
	cids    []cid.Cid // class number -> cid (1-based; index 0 unused)
}

func (fw *FileWalk) classOf(c cid.Cid) int {
	if n, ok := fw.classes[key(c)]; ok {
		return n
	}
	return 0
}

func decodePB(c cid.Cid, b []byte) (*merkledag.ProtoNode, *pb.Data, error) {
	blk, err := blocks.NewBlockWithCid(b, c)
	if err != nil {
		return nil, nil, err
	}
	n, err := merkledag.DecodeProtobufBlock(blk)
	if err != nil {
		return nil, nil, err
	}
	pn := n.(*merkledag.ProtoNode)
	var d pb.Data
	if len(pn.Data()) > 0 {
		if err := proto.Unmarshal(pn.Data(), &d); err != nil {
			return pn, nil, err
		}
		return pn, &d, nil
	}
	return pn, nil, nil
}

func walkFile(st *Store, root cid.Cid) (*FileWalk, error) {
	fw := &FileWalk{classes: map[string]int{}, cids: []cid.Cid{cid.Undef}}
	var rec func(c cid.Cid, parent int, lo int64) (int64, error)
	rec = func(c cid.Cid, parent int, lo int64) (int64, error) {
		b, ok := st.Get(c)
		if !ok {
			return 0, fmt.Errorf("walker: block %s absent", c)
		}
		cl, ok := fw.classes[key(c)]
		if !ok {
			cl = len(fw.cids)
			fw.classes[key(c)] = cl
			fw.cids = append(fw.cids, c)
		}
		me := len(fw.Blocks)
		fw.Blocks = append(fw.Blocks, WBlock{Parent: parent, Lo: lo, Hi: lo, C: cl, Enc: len(b), FileSize: -1, cid: c,
			BlockSizes: []int64{}, Tsizes: []int64{}})
		switch c.Prefix().Codec {
		case cid.Raw:
			fw.Content = append(fw.Content, b...)
			fw.Blocks[me].Leaf = true
			fw.Blocks[me].Kind = "raw"
			fw.Blocks[me].Hi = lo + int64(len(b))
			return fw.Blocks[me].Hi, nil
		case cid.DagProtobuf:
			pn, d, err := decodePB(c, b)
			if err != nil {
				return 0, err
			}
			if d == nil {
				return 0, fmt.Errorf("walker: dag-pb block without UnixFS data in a file")
			}
			if t := d.GetType(); t != pb.Data_File && t != pb.Data_Raw {
				return 0, fmt.Errorf("walker: unexpected type %v in a file", t)
			}
			if d.Filesize != nil {
				fw.Blocks[me].FileSize = int64(d.GetFilesize())
			}
			for _, bs := range d.Blocksizes {
				fw.Blocks[me].BlockSizes = append(fw.Blocks[me].BlockSizes, int64(bs))
			}
			if len(pn.Links()) == 0 {
				fw.Content = append(fw.Content, d.Data...)
				fw.Blocks[me].Leaf = true
				fw.Blocks[me].Kind = "pbleaf"
				fw.Blocks[me].Hi = lo + int64(len(d.Data))
				return fw.Blocks[me].Hi, nil
			}
			fw.Blocks[me].Kind = "node"
			at := lo
			for _, l := range pn.Links() {
				fw.Blocks[me].Tsizes = append(fw.Blocks[me].Tsizes, int64(l.Size))
				hi, err := rec(l.Cid, me+1, at)
				if err != nil {
					return 0, err
				}
				at = hi
			}
			fw.Blocks[me].Hi = at
			return at, nil
		}
		return 0, fmt.Errorf("walker: unsupported codec")
	}
	if _, err := rec(root, 0, 0); err != nil {
		return nil, err
	}
	return fw, nil
}
