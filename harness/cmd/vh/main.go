// Command vh is the Go side of the conformance machinery: it runs scenarios on
// the real go-unixfsnode library (built from /repo's working tree) and records
// ndjson traces that the TLA+ trace specifications in /verif/spec validate.
package main

import (
	"bufio"
	"encoding/json"
	"flag"
	"fmt"
	"os"
	"strings"
)

type cmdFn func(args []string) error

var cmds = map[string]cmdFn{}

func main() {
	if len(os.Args) < 2 {
		fmt.Fprintln(os.Stderr, "usage: vh <command> [flags]")
		for k := range cmds {
			fmt.Fprintln(os.Stderr, "  ", k)
		}
		os.Exit(2)
	}
	fn, ok := cmds[os.Args[1]]
	if !ok {
		fmt.Fprintln(os.Stderr, "unknown command", os.Args[1])
		os.Exit(2)
	}
	if err := fn(os.Args[2:]); err != nil {
		fmt.Fprintln(os.Stderr, "vh:", err)
		os.Exit(2)
	}
}

// readCaseLines reads TLC-exported cases: one JSON value per line.
func readJSONLines(path string, each func(raw json.RawMessage) error) error {
	f, err := os.Open(path)
	if err != nil {
		return err
	}
	defer f.Close()
	sc := bufio.NewScanner(f)
	sc.Buffer(make([]byte, 1<<20), 1<<26)
	for sc.Scan() {
		line := strings.TrimSpace(sc.Text())
		if line == "" {
			continue
		}
		if err := each(json.RawMessage(line)); err != nil {
			return err
		}
	}
	return sc.Err()
}

func init() {
	// run-case: re-execute one recorded case descriptor (replay of a violation)
	cmds["run-case"] = func(args []string) error {
		fs := flag.NewFlagSet("run-case", flag.ExitOnError)
		in := fs.String("case", "", "case json file")
		out := fs.String("out", "", "trace output")
		fs.Parse(args)
		b, err := os.ReadFile(*in)
		if err != nil {
			return err
		}
		tr, err := NewTr(*out)
		if err != nil {
			return err
		}
		defer tr.Close()
		return runCaseJSON(b, tr)
	}
}

func init() {
	// run-cases: re-execute many case descriptors (one JSON object per line)
	cmds["run-cases"] = func(args []string) error {
		fs := flag.NewFlagSet("run-cases", flag.ExitOnError)
		in := fs.String("cases", "", "jsonl file of case descriptors")
		out := fs.String("out", "", "trace output")
		fs.Parse(args)
		tr, err := NewTr(*out)
		if err != nil {
			return err
		}
		defer tr.Close()
		return readJSONLines(*in, func(raw json.RawMessage) error { return runCaseJSON(raw, tr) })
	}
}

// runCaseJSON dispatches on the "fam" field of a case descriptor.
func runCaseJSON(b []byte, tr *Tr) error {
	var head struct {
		Fam string `json:"fam"`
	}
	if err := json.Unmarshal(b, &head); err != nil {
		return err
	}
	switch head.Fam {
	case "file":
		var fc FileCase
		if err := json.Unmarshal(b, &fc); err != nil {
			return err
		}
		return runFileCase(&fc, tr)
	}
	if fn, ok := caseRunners[head.Fam]; ok {
		return fn(b, tr)
	}
	return fmt.Errorf("unknown case family %q", head.Fam)
}

var caseRunners = map[string]func(b []byte, tr *Tr) error{}
