"""Per-property check plans (what is model-checked, which scenarios the harness
runs on the real code, which trace specification and invariants decide)."""
import json
import os

import vlib
from vlib import Broken, log

LEVEL = "model_checking"

# ----------------------------------------------------------------------------
# configs for the spec machines


def cfg_filebuild(maxn, widths, collapse="seeded", invs=None, props=("Terminates",)):
    invs = invs or ["Inv_C07_Shape", "Inv_C01_Flatten", "Inv_C16_NoDangling", "Inv_C16_Result", "Inv_C11_Sizes"]
    s = "SPECIFICATION Spec\nCONSTANTS\n  MaxN = %d\n  Widths = {%s}\n  Collapse = \"%s\"\n" % (
        maxn, ",".join(map(str, widths)), collapse)
    s += "INVARIANTS " + " ".join(invs) + "\n"
    if props:
        s += "PROPERTIES " + " ".join(props) + "\n"
    s += "CHECK_DEADLOCK FALSE\n"
    return s


def cfg_fileread(n, w, k, last, depth, readers=(1, 2), missing=(), export=True):
    invs = ["Inv_C04_PosNonNeg", "Inv_C04_Seek", "Inv_C04_Read", "Inv_C05_NoOverfetch", "Inv_C12_ErrIffMissing", "Inv_C12_HealedReadsSucceed"]
    if export:
        invs.append("Export")
    return ("SPECIFICATION Spec\nCONSTANTS\n  Readers = {%s}\n  N = %d\n  W = %d\n  K = %d\n  LastLen = %d\n  Depth = %d\n"
            "  Missing = {%s}\n  B <- MCB\n  Content <- MCContent\n  Offsets <- MCOffsets\n  Ks <- MCKs\n"
            "INVARIANTS %s\nPROPERTIES Act_C04_Independent\nCHECK_DEADLOCK FALSE\n") % (
        ",".join(map(str, readers)), n, w, k, last, depth, ",".join(map(str, missing)), " ".join(invs))


FILE_INVS = {
    "C01": ["Inv_Harness_WF", "Inv_NoPanic", "Inv_C01_Stored", "Inv_C01_Dag", "Inv_C01_Read", "Inv_C01_Whole", "Inv_C01_Open", "Inv_C01_SeekEnd"],
    "C04": ["Inv_Harness_WF", "Inv_NoPanic", "Inv_C04_Seek", "Inv_C04_Read", "Inv_C04_NoBudget"],
    "C05": ["Inv_Harness_WF", "Inv_NoPanic", "Inv_C05_Read", "Inv_C05_Seek", "Inv_C05_Open", "Inv_C05_Subset"],
    "C06": ["Inv_Harness_WF", "Inv_NoPanic", "Inv_C06_Preload"],
    "C12": ["Inv_Harness_WF", "Inv_NoPanic", "Inv_C12_Read", "Inv_C12_Whole", "Inv_C12_NoBudget", "Inv_C12_Preload"],
    "C20": ["Inv_Harness_WF", "Inv_NoPanic", "Inv_C20_Order", "Inv_C20_Complete"],
}

ASSUME_COMMON = [
    "TLC 1.8.0 and the CommunityModules Json/IOUtils modules evaluate the specifications correctly",
    "the harness's independent walker (boxo merkledag + gogo unixfs_pb decoders) reads stored blocks correctly; "
    "its block tables are checked for well-formedness by Inv_Harness_WF",
    "all storage traffic of the library goes through the LinkSystem callbacks the harness owns",
]


def gen(ctx, binpath, name, args):
    out = ctx.path(name + ".ndjson")
    try:
        vlib.vh(binpath, list(args) + ["-out", out])
    except vlib.Crashed as c:
        # the library took the harness process down: that is the outcome of the case that was running
        # (the remaining cases of this generator are lost for this run)
        vlib.mark_crash(out, str(c))
        ctx.notes.append(f"generator {name} was taken down by the code under test ({c}); recorded as a crash of its last case")
    return out


def decide(ctx, binpath, module, invs, traces, extras=()):
    """Validate traces; `invs` decide the property, `extras` are invariants beyond the listed properties:
    they are evaluated and reported in the evidence file but never produce a verdict."""
    raw = vlib.validate_traces(ctx, module, list(invs) + list(extras), traces)
    beyond = [v for v in raw if v["inv"] in extras]
    raw = [v for v in raw if v["inv"] not in extras]
    if extras:
        obs = ctx.extra.setdefault("beyond_property_checks", {"invariants": [], "observations": []})
        obs["invariants"] = sorted(set(obs["invariants"]) | set(extras))
        for v in beyond[:20]:
            try:
                cid_ = json.loads(v["case"]).get("id", "")
            except Exception:
                cid_ = ""
            obs["observations"].append({"inv": v["inv"], "case_id": cid_, "event": v["event"][:300]})
        obs["violating_cases"] = obs.get("violating_cases", 0) + len(beyond)
    vlib.handle_violations(ctx, binpath, module, invs, raw)


# ----------------------------------------------------------------------------
# file family

def hist_traces(ctx, binpath, shapes, depth, readers, opens=("direct",), small=False):
    """TLC explores every Seek/Read history of FileRead up to `depth` for each
    shape and exports it; the harness replays each on real readers."""
    traces = []
    for (n, w, k, last, writer) in shapes:
        cfg = cfg_fileread(n, w, k, last, depth, readers=readers)
        if small == "boundary":
            cfg = cfg.replace("Offsets <- MCOffsets", "Offsets <- MCOffsetsBoundary").replace("Ks <- MCKs", "Ks <- MCKsSmall")
        elif small:
            cfg = cfg.replace("Offsets <- MCOffsets", "Offsets <- MCOffsetsSmall").replace("Ks <- MCKs", "Ks <- MCKsSmall")
        r = vlib.model_check(ctx, "MCFileRead", cfg,
                             name=f"MCFileRead_{n}_{w}_{k}_{last}_d{depth}_r{len(readers)}{'_' + str(small) if small else ''}", want_cases=True)
        if not r["cases"]:
            raise Broken("TLC exported no histories")
        casefile = ctx.path(f"hist_{n}_{w}_{k}_{last}_{depth}_{len(readers)}.jsonl")
        open(casefile, "w").write("\n".join(r["cases"]) + "\n")
        ctx.extra["tlc_histories_exported"] = ctx.extra.get("tlc_histories_exported", 0) + len(r["cases"])
        for op in opens:
            traces.append(gen(ctx, binpath, f"hist_{n}_{w}_{k}_{last}_{writer}_{op}_d{depth}_r{len(readers)}{str(small) if small else ''}",
                              ["file-hist", "-n", n, "-w", w, "-k", k, "-last", last, "-cases", casefile, "-open", op,
                               "-writer", writer, "-readers", max(readers)]))
    return traces


VARIANT_WRITERS = ["own-nofs", "own-zmid", "own-zend", "own-zpb", "own-zlead", "own-wrap1"]


def run_C01(ctx):
    b = vlib.build_harness()
    q = ctx.quick
    vlib.model_check(ctx, "FileBuild", cfg_filebuild(16 if q else 40, [2, 3, 4],
                     invs=["Inv_C01_Flatten", "Inv_C11_Sizes"], props=()), name="FileBuild_C01")
    vlib.model_check(ctx, "MCFileRead", cfg_fileread(5, 2, 3, 2, 2, readers=(1,), export=False), name="MCFileRead_contract")
    t = [gen(ctx, b, "seq", ["file-gen", "-what", "seq", "-maxn", 9 if q else 45, "-wmax", 4 if q else 6]),
         gen(ctx, b, "seqk1", ["file-gen", "-what", "seq", "-maxn", 8 if q else 40, "-wmax", 3 if q else 4, "-k", 1]),
         gen(ctx, b, "writers", ["file-gen", "-what", "writers", "-maxn", 6 if q else 24, "-wmax", 3 if q else 5]),
         gen(ctx, b, "random", ["file-gen", "-what", "random", "-count", 40 if q else 3000, "-seed", ctx.seed]),
         # a writer that omits BlockSizes: child sizes come from Tsize or from opening the children
         gen(ctx, b, "seq_nobs", ["file-gen", "-what", "seq", "-maxn", 7 if q else 16, "-wmax", 3, "-writer", "own-nobs"]),
         # trees of 8+ levels (narrow width, many chunks) and contents whose chunks repeat
         gen(ctx, b, "deep", ["file-gen", "-what", "deep", "-maxn", 1100 if q else 3000]),
         # valid DAGs no reference writer produces: raw leaves after a dag-pb sibling; a root with a pre-1970 mtime
         gen(ctx, b, "seq_mixed", ["file-gen", "-what", "seq", "-maxn", 7 if q else 16, "-wmax", 3, "-writer", "own-mixed"]),
         gen(ctx, b, "seq_mtime", ["file-gen", "-what", "seq", "-maxn", 5 if q else 12, "-wmax", 3, "-writer", "own-mtime"])]
    # further valid DAGs no importer writes: no FileSize; a child that holds no bytes (first, in the middle, last; raw or
    # dag-pb); one more single-link level on top
    t.append(gen(ctx, b, "chunkers", ["file-gen", "-what", "chunkers"]))
    for wr in VARIANT_WRITERS + ["own-rawroot"]:
        t.append(gen(ctx, b, "seq_" + wr, ["file-gen", "-what", "seq", "-maxn", 5 if q else 12, "-wmax", 3, "-writer", wr]))
    ctx.exhaustive = False
    decide(ctx, b, "TraceFile", FILE_INVS["C01"], t)


def run_C04(ctx):
    b = vlib.build_harness()
    q = ctx.quick
    shapes = [(1, 2, 3, 3, "own"), (1, 2, 3, 3, "boxo-balanced-pb-v0"), (3, 2, 3, 2, "own"), (5, 2, 3, 2, "own")]
    t = hist_traces(ctx, b, shapes, 2, (1, 2), opens=("direct", "reify"))
    if not q:
        t += hist_traces(ctx, b, [(5, 2, 3, 2, "own"), (1, 2, 3, 3, "boxo-balanced-pb-v0"), (7, 3, 2, 1, "boxo-balanced-pb-v1"),
                                  (7, 2, 3, 1, "boxo-trickle-raw-v1"), (1, 2, 3, 3, "own")], 3, (1,), opens=("direct", "reify"))
        # two readers, depth 3, full alphabet: 681 472 histories
        t += hist_traces(ctx, b, [(5, 2, 3, 2, "own")], 3, (1, 2), opens=("direct",))
    # a mixed-depth (trickle) reference DAG, and longer histories over a reduced alphabet
    t += hist_traces(ctx, b, [(7, 2, 3, 1, "boxo-trickle-raw-v1")], 2, (1, 2), opens=("direct",))
    t += hist_traces(ctx, b, [(5, 2, 3, 2, "own")] if q else [(5, 2, 3, 2, "own"), (7, 2, 3, 1, "boxo-trickle-raw-v1")], 4, (1,), opens=("direct",), small=True)
    # the same histories on valid DAGs no importer writes (no FileSize: end-relative seeks use what the links add up to)
    t += hist_traces(ctx, b, [(4, 2, 3, 2, "own-nofs"), (3, 2, 3, 2, "own-zmid"), (3, 2, 3, 2, "own-zlead"), (2, 2, 3, 3, "own-wrap1"),
                              (1, 2, 3, 3, "own-wrap1")], 2, (1,), opens=("direct", "reify") if not q else ("direct",))
    t += hist_traces(ctx, b, [(4, 4, 3, 2, "own-nofs")], 3, (1,), opens=("direct",), small="boundary")
    t.append(gen(ctx, b, "randhist", ["file-gen", "-what", "randhist", "-count", 150 if q else 3000, "-seed", ctx.seed]))
    t.append(gen(ctx, b, "random", ["file-gen", "-what", "random", "-count", 25 if q else 300, "-seed", ctx.seed + 7]))
    ctx.exhaustive = True
    decide(ctx, b, "TraceFile", FILE_INVS["C04"], t)


def run_file_simple(pid, what_list):
    def run(ctx):
        b = vlib.build_harness()
        q = ctx.quick
        vlib.model_check(ctx, "MCFileRead", cfg_fileread(5, 2, 3, 2, 2, readers=(1,), export=False), name="MCFileRead_contract")
        vlib.model_check(ctx, "MCFileRead", cfg_fileread(5, 2, 3, 2, 3, readers=(1,), missing=(4,), export=False),
                         name="MCFileRead_missing4")
        t = []
        for what, qa, ta in what_list:
            t.append(gen(ctx, b, what, ["file-gen", "-what", what] + (qa if q else ta) + ["-seed", ctx.seed]))
        ctx.exhaustive = True
        decide(ctx, b, "TraceFile", FILE_INVS[pid], t)
    return run


# ----------------------------------------------------------------------------
# directory family

DIR_INVS = {
    "C02": ["Inv_Harness_WF", "Inv_NoPanic", "Inv_C02_Stored", "Inv_C02_Open", "Inv_C02_Lookup", "Inv_C02_Iter", "Inv_C02_Length"],
    "C08": ["Inv_Harness_WF", "Inv_NoPanic", "Inv_C08_Canon", "Inv_C08_RefEq", "Inv_C02_Stored", "Inv_C02_Open", "Inv_C02_Lookup",
            "Inv_C02_Iter", "Inv_C02_Length"],
    "C05": ["Inv_Harness_WF", "Inv_NoPanic", "Inv_C05_Lookup", "Inv_C05_Open", "Inv_C05_NoEntryLoads"],
    "C06": ["Inv_Harness_WF", "Inv_NoPanic", "Inv_C06_Preload", "Inv_C05_NoEntryLoads"],
    "C12": ["Inv_Harness_WF", "Inv_NoPanic", "Inv_C12_Lookup", "Inv_C12_Iter", "Inv_C12_IterTerminates", "Inv_C12_Length", "Inv_C12_Preload"],
    "C15": ["Inv_Harness_WF", "Inv_NoPanic", "Inv_C15_Iter", "Inv_C15_Length", "Inv_C15_Lookup"],
    "C20": ["Inv_Harness_WF", "Inv_NoPanic", "Inv_C20_Order", "Inv_C20_Complete"],
}


def cfg_hamtbuild(maxfail=3):
    return ("SPECIFICATION Spec\nCONSTANTS\n  Univ <- MCUniv\n  Dig <- MCDig\n  MaxFail = %d\n"
            "INVARIANTS Inv_C08_Canon Inv_C02_Map Inv_C16_NoDangling Inv_C16_Result Inv_C10_Deterministic\n"
            "PROPERTIES Terminates\nCHECK_DEADLOCK FALSE\n") % maxfail


def cfg_hamtread(maxops=2):
    return ("SPECIFICATION Spec\nCONSTANTS\n  Univ <- MCUniv\n  Dig <- MCDig\n  MaxOps = %d\n"
            "INVARIANTS Inv_C02_Lookup Inv_C05_LookupLoads Inv_C12_Lookup Inv_C12_Iterate Inv_C20_IterOrder\n"
            "CHECK_DEADLOCK FALSE\n") % maxops


def cfg_hamtref(depth, export=True):
    return ("SPECIFICATION Spec\nCONSTANTS\n  Univ <- MCUniv5\n  Dig <- MCDig\n  Depth = %d\n"
            "INVARIANTS Inv_C08_Entries Inv_C08_Canon Inv_C08_Lookup%s\nCHECK_DEADLOCK FALSE\n") % (depth, " Export" if export else "")


FAN_Q = "8,16,256,1024"
FAN_T = "8,16,32,64,128,256,512,1024"


def dgen(ctx, b, what, fanouts=None, extra=()):
    args = ["dir-gen", "-what", what, "-seed", ctx.seed]
    if fanouts:
        args += ["-fanouts", fanouts]
    return gen(ctx, b, "dir_" + what + "_" + str(len(ctx.mc_runs)) + "_" + str(abs(hash((fanouts, tuple(extra)))) % 10000), args + list(extra))


def run_C02(ctx):
    b = vlib.build_harness()
    q = ctx.quick
    vlib.model_check(ctx, "MCHamtBuild", cfg_hamtbuild(0), name="MCHamtBuild")
    vlib.model_check(ctx, "MCHamtRead", cfg_hamtread(2), name="MCHamtRead")
    t = [dgen(ctx, b, "sets", FAN_T, ["-orders", 3 if q else 90]),
         dgen(ctx, b, "random", None, ["-count", 60 if q else 12000]),
         dgen(ctx, b, "longnames", FAN_T),
         dgen(ctx, b, "numeric", FAN_T),
         dgen(ctx, b, "big", None, ["-count", 4 if q else 300])]
    ctx.exhaustive = True
    decide(ctx, b, "TraceDir", DIR_INVS["C02"] + ["Inv_C02_Big"], t)
    # bucket choice: both real bit-slicing helpers (verif-tagged exports) against the MSB-first slice, every (offset, width)
    vlib.model_check(ctx, "MCHashBits", open(vlib.os.path.join(vlib.SPEC, "MCHashBits.cfg")).read(), name="MCHashBits")
    ht = [gen(ctx, b, "hashbits", ["hash-gen", "-count", 8 if q else 1000, "-seed", ctx.seed])]
    decide(ctx, b, "TraceHash", ["Inv_NoPanic", "Inv_C02_HashReader", "Inv_C02_HashBuilder"], ht)


def run_C08(ctx):
    b = vlib.build_harness()
    q = ctx.quick
    vlib.model_check(ctx, "MCHamtBuild", cfg_hamtbuild(0), name="MCHamtBuild")
    r = vlib.model_check(ctx, "MCHamtRef", cfg_hamtref(4 if q else 5), name="MCHamtRef", want_cases=True)
    cases = r["cases"]
    if q:
        import random
        cases = random.Random(ctx.seed).sample(cases, min(len(cases), 1500))
    casefile = ctx.path("hamt_hist.jsonl")
    open(casefile, "w").write("\n".join(cases) + "\n")
    ctx.extra["tlc_histories_exported"] = len(r["cases"])
    ctx.extra["tlc_histories_replayed"] = len(cases)
    t = [dgen(ctx, b, "sets", FAN_T, ["-orders", 2 if q else 6]),
         dgen(ctx, b, "boxo", FAN_T),
         dgen(ctx, b, "longnames", FAN_T),
         dgen(ctx, b, "numeric", FAN_T),
         dgen(ctx, b, "hist", FAN_T, ["-cases", casefile]),
         dgen(ctx, b, "random", None, ["-count", 40 if q else 3000])]
    ctx.exhaustive = True
    decide(ctx, b, "TraceDir", DIR_INVS["C08"], t)


def run_C15(ctx):
    b = vlib.build_harness()
    q = ctx.quick
    vlib.model_check(ctx, "MCHamtRead", cfg_hamtread(2), name="MCHamtRead")
    t = [dgen(ctx, b, "raw", None, ["-maxlen", 3 if q else 4]),
         dgen(ctx, b, "sets", FAN_T, ["-orders", 1]),
         dgen(ctx, b, "boxo", FAN_T),
         dgen(ctx, b, "numeric", "8,256,1024")]
    ctx.exhaustive = True
    decide(ctx, b, "TraceDir", DIR_INVS["C15"], t)


PATH_PART = {"C05": (["match"], ["Inv_NoPanic", "Inv_C05_Path"]),
             "C06": (["preload"], ["Inv_NoPanic", "Inv_C06_PathPreload"]),
             "C20": (["match", "preload"], ["Inv_NoPanic", "Inv_C20_PathOrder", "Inv_C20_PathExact", "Inv_C20_PreloadPathExact", "Inv_C20_PathSame"])}


def run_mixed(pid, file_gens, dir_gens):
    """Properties decided on the file family, the directory family and (path part) on path traversals."""
    def run(ctx):
        b = vlib.build_harness()
        q = ctx.quick
        vlib.model_check(ctx, "MCFileRead", cfg_fileread(5, 2, 3, 2, 2, readers=(1,), export=False), name="MCFileRead_contract")
        vlib.model_check(ctx, "MCFileRead", cfg_fileread(5, 2, 3, 2, 3, readers=(1,), missing=(4,), export=False),
                         name="MCFileRead_missing4")
        vlib.model_check(ctx, "MCHamtRead", cfg_hamtread(2), name="MCHamtRead")
        ft, dt = [], []
        for what, qa, ta in file_gens:
            ft.append(gen(ctx, b, "file_%s_%d" % (what, len(ft)), ["file-gen", "-what", what] + (qa if q else ta) + ["-seed", ctx.seed]))
        for what, qa, ta in dir_gens:
            dt.append(dgen(ctx, b, what, qa if q else ta))
        ctx.exhaustive = True
        decide(ctx, b, "TraceFile", FILE_INVS[pid], ft)
        decide(ctx, b, "TraceDir", DIR_INVS[pid], dt)
        if pid == "C05":
            # readers re-used across Seek/Read steps: every TLC history of depth 2 and long random histories
            ht = hist_traces(ctx, b, [(5, 2, 3, 2, "own"), (7, 3, 2, 1, "boxo-balanced-pb-v1")], 2, (1, 2), opens=("direct",))
            # a reader that has streamed is repositioned exactly onto child boundaries and read again
            ht += hist_traces(ctx, b, [(5, 2, 3, 2, "own"), (7, 3, 2, 1, "own")], 3 if q else 4, (1,), opens=("direct",), small="boundary")
            ht.append(gen(ctx, b, "randhist", ["file-gen", "-what", "randhist", "-count", 150 if q else 3000, "-seed", ctx.seed]))
            decide(ctx, b, "TraceFile", FILE_INVS[pid], ht)
        if pid == "C12":
            # several goroutines reach one unavailable shard at the same time (yield hooks on): every one of them gets the load error
            ct = gen(ctx, b, "conc_missz", ["conc-gen", "-what", "missz", "-reps", 10 if q else 200])
            decide(ctx, b, "TraceDir", ["Inv_Harness_WF", "Inv_NoPanic", "Inv_C12_ConcMissing"], [ct])
        if pid in PATH_PART:
            targets, invs = PATH_PART[pid]
            pt = [path_traces(ctx, b, targets, ["FALSE"], True, 4 if q else 1)]
            if pid == "C06":
                pt.append(path_traces(ctx, b, ["entity", "preload"], ["FALSE"], "consume", 24 if q else 1))
                invs = invs + ["Inv_C06_Entity"]
            decide(ctx, b, "TracePath", invs, pt)
    return run


# ----------------------------------------------------------------------------
# builders

BUILD_INVS = {
    "C07": ["Inv_NoPanic", "Inv_C07_Shape", "Inv_C07_RefShape", "Inv_C07_RefEq", "Inv_C07_RefSame"],
    "C10": ["Inv_NoPanic", "Inv_C10_Same"],
    "C11": ["Inv_NoPanic", "Inv_C11_Tsize", "Inv_C11_Returned", "Inv_C11_FileSizes", "Inv_C11_Big"],
    "C16": ["Inv_NoPanic", "Inv_C16_NoDangling", "Inv_C16_CleanFailure", "Inv_C16_LinkOnlyWhenComplete", "Inv_C16_Big"],
}


def bgen(ctx, b, what, extra=()):
    return gen(ctx, b, "build_" + what + "_" + str(abs(hash(tuple(map(str, extra)))) % 100000),
               ["build-gen", "-what", what, "-seed", ctx.seed] + list(extra))


def run_C07(ctx):
    b = vlib.build_harness()
    q = ctx.quick
    vlib.model_check(ctx, "FileBuild", cfg_filebuild(16 if q else 40, [2, 3, 4], invs=["Inv_C07_Shape", "Inv_C01_Flatten", "Inv_X_TrickleFlatten"], props=()),
                     name="FileBuild_C07")
    # non-vacuity / documentation of F1: the pre-fix collapse rule is rejected by the same invariant
    vlib.model_check(ctx, "FileBuild", cfg_filebuild(8, [2, 3], collapse="always", invs=["Inv_C07_Shape"], props=()),
                     name="FileBuild_collapse_always", expect_violation="Inv_C07_Shape")
    t = [bgen(ctx, b, "files", ["-maxn", 24 if q else 160, "-wmax", 4 if q else 8]),
         bgen(ctx, b, "dedup", ["-maxn", 5 if q else 7, "-wmax", 2 if q else 3]),
         bgen(ctx, b, "random", ["-count", 30 if q else 3000]),
         bgen(ctx, b, "wide", ["-maxn", 400 if q else 40000]),
         bgen(ctx, b, "deep", ["-maxn", 300 if q else 3000]),
         bgen(ctx, b, "cdc", ["-count", 150 if q else 12000]),
         bgen(ctx, b, "chunkers", [])]
    ctx.exhaustive = True
    decide(ctx, b, "TraceBuild", BUILD_INVS["C07"], t, extras=["Inv_X_TrickleShape"])


def run_C10(ctx):
    b = vlib.build_harness()
    q = ctx.quick
    vlib.model_check(ctx, "MCHamtBuild", cfg_hamtbuild(0), name="MCHamtBuild")
    t = [bgen(ctx, b, "dirs", ["-fanouts", FAN_T, "-orders", 4 if q else 60, "-repeat", 3 if q else 40]),
         bgen(ctx, b, "frag", ["-maxn", 7 if q else 12, "-count", 10 if q else 800]),
         bgen(ctx, b, "misc", []),
         bgen(ctx, b, "mixdir", ["-repeat", 3 if q else 12]),
         bgen(ctx, b, "hashers", ["-orders", 6 if q else 60, "-repeat", 3 if q else 20]),
         bgen(ctx, b, "files", ["-maxn", 6 if q else 24, "-wmax", 3 if q else 4, "-repeat", 2]),
         # recursive imports: repeated, from another place on disk, with the root spelled as a relative path
         bgen(ctx, b, "trees", ["-count", 25 if q else 1000]),
         bgen(ctx, b, "random", ["-count", 10 if q else 400]),
         bgen(ctx, b, "hugedir", [])]
    ctx.exhaustive = True
    decide(ctx, b, "TraceBuild", BUILD_INVS["C10"], t)


def run_C11(ctx):
    b = vlib.build_harness()
    q = ctx.quick
    vlib.model_check(ctx, "FileBuild", cfg_filebuild(16 if q else 40, [2, 3, 4], invs=["Inv_C11_Sizes"], props=()), name="FileBuild_C11")
    t = [bgen(ctx, b, "files", ["-maxn", 16 if q else 120, "-wmax", 4 if q else 8]),
         bgen(ctx, b, "dedup", ["-maxn", 5 if q else 6, "-wmax", 3]),
         bgen(ctx, b, "dirs", ["-fanouts", FAN_T, "-orders", 1, "-repeat", 0]),
         bgen(ctx, b, "trees", ["-count", 12 if q else 800]),
         bgen(ctx, b, "misc", []),
         bgen(ctx, b, "random", ["-count", 25 if q else 2000]),
         bgen(ctx, b, "threshold", []),
         bgen(ctx, b, "hugesizes", []),
         bgen(ctx, b, "quicktrees", []),
         bgen(ctx, b, "chunkers", [])]
    ctx.exhaustive = True
    decide(ctx, b, "TraceBuild", BUILD_INVS["C11"], t)


def run_C16(ctx):
    b = vlib.build_harness()
    q = ctx.quick
    vlib.model_check(ctx, "FileBuild", cfg_filebuild(12 if q else 30, [2, 3, 4], invs=["Inv_C16_NoDangling", "Inv_C16_Result"]),
                     name="FileBuild_C16")
    vlib.model_check(ctx, "MCHamtBuild", cfg_hamtbuild(3 if q else 6), name="MCHamtBuild_faults")
    t = [bgen(ctx, b, "files", ["-maxn", 10 if q else 40, "-wmax", 3 if q else 4, "-faults"]),
         bgen(ctx, b, "dirs", ["-fanouts", "8,64,512" if q else FAN_T, "-orders", 1, "-repeat", 2, "-faults"]),
         bgen(ctx, b, "trees", ["-count", 10 if q else 400, "-faults"]),
         bgen(ctx, b, "mixdir", ["-faults", "-repeat", 0, "-maxn", 12]),
         bgen(ctx, b, "quicktrees", []),
         bgen(ctx, b, "misc", [])]
    ctx.exhaustive = True
    decide(ctx, b, "TraceBuild", BUILD_INVS["C16"], t, extras=["Inv_X_ReaderFailure"])


# ----------------------------------------------------------------------------
# codec

CODEC_INVS = ["Inv_NoPanic", "Inv_C09_Accept", "Inv_C09_Ref", "Inv_C09_Reencode", "Inv_C09_Canonical", "Inv_C09_Perm",
              "Inv_C09_X", "Inv_C09_XPerm"]


def cfg_codec(maxopt, maxunk, nm, bsmodes, muts, pfs=True, export=True):
    return ("SPECIFICATION Spec\nCONSTANTS\n  MaxOpt = %d\n  MaxUnknown = %d\n  AllowNM = %s\n  BSModes = {%s}\n  Muts = {%s}\n"
            "  PackedFlagSet = %s\nINVARIANTS Inv_C09_Accept Inv_GenConformant Inv_C13_Reject Inv_C13_RejectWT%s\nCHECK_DEADLOCK FALSE\n") % (
        maxopt, maxunk, "TRUE" if nm else "FALSE", ", ".join('"%s"' % b for b in bsmodes), ", ".join('"%s"' % m for m in muts),
        "TRUE" if pfs else "FALSE", " Export" if export else "")


BS_ALL = ["none", "unpacked1", "unpacked2", "packed0", "packed1", "packed2"]
MUTS_ALL = ["none", "tag0", "trunc", "wiretype", "notype", "mixed"]


def codec_cases(ctx, b, q, fuzzevery=25):
    cfgs = [("perm", cfg_codec(2 if q else 3, 0, False, ["none", "unpacked2", "packed2"], ["none"])),
            ("unknown", cfg_codec(1, 1 if q else 2, False, BS_ALL if not q else ["none", "unpacked2", "packed2", "packed0"], ["none"])),
            ("nm_muts", cfg_codec(1 if q else 2, 0, True, ["none", "unpacked1", "packed1"], MUTS_ALL))]
    traces = []
    total = 0
    for name, cfg in cfgs:
        r = vlib.model_check(ctx, "Codec", cfg, name="Codec_" + name, want_cases=True, workers=1)
        cases = r["cases"]
        total += len(cases)
        cap = 12000 if q else 400000
        if len(cases) > cap:
            import random
            cases = random.Random(ctx.seed).sample(cases, cap)
        cf_ = ctx.path(f"codec_{name}.jsonl")
        open(cf_, "w").write("\n".join(cases) + "\n")
        traces.append(gen(ctx, b, "codec_" + name, ["codec-replay", "-cases", cf_, "-vecs", 2 if q else 6, "-fuzzevery", fuzzevery]))
    ctx.extra["tlc_presentations_exported"] = total
    return traces


def run_C09(ctx):
    b = vlib.build_harness()
    q = ctx.quick
    # non-vacuity / documentation of F2: the decoder without the packed flag violates the same invariant
    vlib.model_check(ctx, "Codec", cfg_codec(1, 0, False, ["packed1"], ["none"], pfs=False, export=False),
                     name="Codec_packedflag_unset", expect_violation="Inv_C09_Accept")
    t = codec_cases(ctx, b, q)
    t.append(gen(ctx, b, "codecx", ["codec-gen", "-count", 400 if q else 20000, "-seed", ctx.seed]))
    ctx.exhaustive = True
    decide(ctx, b, "TraceCodec", CODEC_INVS, t)
    # beyond the listed properties: every option sequence of length <= 2 (thorough 3) for BuildUnixFS
    r = vlib.model_check(ctx, "Builder", "SPECIFICATION Spec\nCONSTANT MaxLen = %d\nINVARIANTS Inv_X_BuilderSane Export\nCHECK_DEADLOCK FALSE\n" % (2 if q else 3),
                         name="Builder_options", want_cases=True, workers=1)
    cf_ = ctx.path("bopt.jsonl")
    open(cf_, "w").write("\n".join(r["cases"]) + "\n")
    bt = [gen(ctx, b, "bopt", ["bopt-replay", "-cases", cf_])]
    decide(ctx, b, "TraceCodec", ["Inv_NoPanic"], bt, extras=["Inv_X_Builder"])


# ----------------------------------------------------------------------------
# reification and hostile DAGs

def hgen(ctx, b, what, pairs=True):
    return gen(ctx, b, "hostile_" + what, ["hostile-gen", "-what", what] + ([] if pairs else ["-pairs=false"]))


def run_C14(ctx):
    b = vlib.build_harness()
    vlib.model_check(ctx, "Reify", open(vlib.os.path.join(vlib.SPEC, "Reify.cfg")).read(), name="Reify")
    t = [hgen(ctx, b, "reify"), hgen(ctx, b, "file", pairs=not ctx.quick), hgen(ctx, b, "dir"), hgen(ctx, b, "hamt", pairs=not ctx.quick)]
    if not ctx.quick:
        # three defects at a time: the dispatch and the substrate must not depend on what else is wrong with the node
        t += [gen(ctx, b, "hostile_hamt3", ["hostile-gen", "-what", "hamt", "-triples"]),
              gen(ctx, b, "hostile_file3", ["hostile-gen", "-what", "file", "-triples"])]
    ctx.exhaustive = True
    decide(ctx, b, "TraceHostile", ["Inv_NoPanic", "Inv_C14_Typed_T", "Inv_C14_Substrate", "Inv_C14_Addressable"], t,
           extras=["Inv_X_ADLBytes", "Inv_X_ADLBytesLength", "Inv_X_ADLMap", "Inv_X_ADLPair", "Inv_X_ADLPairLength", "Inv_X_Ctor"])


HOSTILE_CFG = ("SPECIFICATION Spec\nCONSTANTS\n  MaxChildLinks = %d\n  MaxRootLinks = %d\n  Digits <- MCDigits\n"
               "INVARIANTS Inv_X_FoundIsYielded Inv_X_LengthIsPairs Inv_X_FailedLengthHasError Inv_X_Total\nCHECK_DEADLOCK FALSE\n")


def run_C13(ctx):
    b = vlib.build_harness()
    q = ctx.quick
    vlib.model_check(ctx, "Reify", open(vlib.os.path.join(vlib.SPEC, "Reify.cfg")).read(), name="Reify")
    # beyond the property: the predictive transcription of the sharded-directory reader is total and self-consistent
    # on every two-block table of a small domain (quick ~60 k tables, thorough ~3 M)
    vlib.model_check(ctx, "MCHostile", HOSTILE_CFG % ((1, 1) if q else (1, 2)), name="MCHostile")
    # ... and the file-reader transcription: total, never inventing bytes, and on every *consistent* table reading
    # everything succeeds with exactly the declared length (66 k / 4.3 M tables)
    vlib.model_check(ctx, "FileHostile", "SPECIFICATION Spec\nCONSTANT MaxRootLinks = %d\nINVARIANTS Inv_X_Total Inv_X_ConsistentReads "
                     "Inv_X_NoInventedBytes\nCHECK_DEADLOCK FALSE\n" % (1 if q else 2), name="FileHostile")
    vlib.model_check(ctx, "Codec", cfg_codec(1, 0, False, ["none", "packed1"], MUTS_ALL, export=False), name="Codec_malformed")
    t = [hgen(ctx, b, "reify"), hgen(ctx, b, "hamt"), hgen(ctx, b, "file"), hgen(ctx, b, "dir")]
    if not q:
        # three defects at a time
        t += [gen(ctx, b, "hostile_hamt3", ["hostile-gen", "-what", "hamt", "-triples"]),
              gen(ctx, b, "hostile_file3", ["hostile-gen", "-what", "file", "-triples"])]
    decide(ctx, b, "TraceHostile", ["Inv_NoPanic", "Inv_C13_Reify", "Inv_C13_Op"], t,
           extras=["Inv_X_HamtReify", "Inv_X_HamtLookup", "Inv_X_HamtLength", "Inv_X_HamtIter", "Inv_X_FileReify", "Inv_X_FileBytes", "Inv_X_Ctor"])
    # the three decoders on arbitrary bytes: every truncation / bit flips of every TLC-generated stream, random bytes
    ct = codec_cases(ctx, b, q, fuzzevery=1 if not q else 4)
    ct.append(gen(ctx, b, "codecx", ["codec-gen", "-count", 2000 if q else 100000, "-seed", ctx.seed]))
    ctx.exhaustive = False
    decide(ctx, b, "TraceCodec", ["Inv_NoPanic", "Inv_C13_Fuzz"], ct)


# ----------------------------------------------------------------------------
# importer and fixtures

def run_C18(ctx):
    b = vlib.build_harness()
    q = ctx.quick
    vlib.model_check(ctx, "Import", open(vlib.os.path.join(vlib.SPEC, "Import.cfg")).read(), name="Import")
    t = [gen(ctx, b, "import_enum", ["import-gen", "-what", "enum"]),
         gen(ctx, b, "import_random", ["import-gen", "-what", "random", "-count", 40 if q else 5000, "-seed", ctx.seed]),
         gen(ctx, b, "import_wide", ["import-gen", "-what", "wide"]),
         gen(ctx, b, "import_special", ["import-gen", "-what", "special"])]
    ctx.exhaustive = True
    decide(ctx, b, "TraceImport", ["Inv_NoPanic", "Inv_NoHang", "Inv_Harness_Walk", "Inv_C18_Reject", "Inv_C18_Tree", "Inv_C18_Shard", "Inv_C18_Big"], t)


def run_C19(ctx):
    b = vlib.build_harness()
    q = ctx.quick
    vlib.model_check(ctx, "Fixture", open(vlib.os.path.join(vlib.SPEC, "Fixture.cfg")).read(), name="Fixture")
    # non-vacuity / documentation of F9: a generator that may repeat a sibling name violates SiblingsOK
    vlib.model_check(ctx, "Fixture", open(vlib.os.path.join(vlib.SPEC, "Fixture.cfg")).read().replace("AllowDup = FALSE", "AllowDup = TRUE"),
                     name="Fixture_dup_names", expect_violation="Inv_C19_Siblings")
    t = [gen(ctx, b, "fixtures", ["fixture-gen", "-count", 12 if q else 400, "-seed", ctx.seed])]
    decide(ctx, b, "TraceFixture", ["Inv_NoPanic", "Inv_Harness_Walk", "Inv_C19_Same", "Inv_C19_Siblings", "Inv_C19_Paths", "Inv_C19_ReadBack"], t,
           extras=["Inv_X_CompareDetects"])


# ----------------------------------------------------------------------------
# path selectors

PATH_CFG = ("SPECIFICATION Spec\nCONSTANTS\n  Targets = {%s}\n  MPs = {%s}\nINVARIANTS Inv_C03_ExpShape%s\nCHECK_DEADLOCK FALSE\n")


def path_traces(ctx, b, targets, mps, passive, sample):
    cfg = PATH_CFG % (", ".join('"%s"' % t for t in targets), ", ".join(mps), " Export")
    r = vlib.model_check(ctx, "PathSel", cfg, name="PathSel_" + "_".join(targets) + ("_" + str(passive) if passive else ""), want_cases=True, workers=1)
    cases = r["cases"]
    ctx.extra["tlc_path_cases_exported"] = ctx.extra.get("tlc_path_cases_exported", 0) + len(cases)
    if sample > 1:
        # a seeded random sample: TLC emits the cases in a regular order (target x matchPath cycle with period 8),
        # so a fixed stride would always pick the same combination
        import random
        cases = random.Random(ctx.seed).sample(cases, max(1, len(cases) // sample))
    cf_ = ctx.path("path_cases_%d.jsonl" % len(ctx.mc_runs))
    open(cf_, "w").write("\n".join(cases) + "\n")
    mode = ["-consume"] if passive == "consume" else (["-passive"] if passive else [])
    return gen(ctx, b, "path_%d" % len(ctx.mc_runs), ["path-replay", "-cases", cf_] + mode)


def run_C03(ctx):
    b = vlib.build_harness()
    q = ctx.quick
    t = [path_traces(ctx, b, ["match", "preload", "entity", "exploreall"], ["FALSE", "TRUE"], False, 4 if q else 1)]
    ctx.exhaustive = not q
    decide(ctx, b, "TracePath", ["Inv_NoPanic", "Inv_C03_Target", "Inv_C03_NothingElse", "Inv_C03_PathNodes", "Inv_C03_NoMP"], t)


# ----------------------------------------------------------------------------
# concurrency

CONC_CFG = ("SPECIFICATION Spec\nCONSTANTS\n  G = {%s}\n  Locked = %s\n  Collect = %s\n"
            "INVARIANTS Inv_C17_NoRace Inv_C17_MutexOK Inv_C17_Results Inv_C17_MemoMonotone\n%sCHECK_DEADLOCK FALSE\n")


def race_run(ctx, binrace, what, reps, name):
    """Run concurrent scenarios under the Go race detector; returns (trace, races, report)."""
    import subprocess
    out = ctx.path(name + ".ndjson")
    env = dict(vlib.os.environ, GORACE="halt_on_error=0")
    r = subprocess.run([binrace, "conc-gen", "-what", what, "-reps", str(reps), "-out", out], capture_output=True, text=True,
                       timeout=3600, env=env)
    races = r.stderr.count("WARNING: DATA RACE")
    fatal = "fatal error: concurrent map" in r.stderr
    completed = r.returncode in (0, 66) and not fatal
    if r.returncode not in (0, 66) and races == 0 and not fatal:
        raise Broken(f"race harness failed ({r.returncode}):\n{r.stderr[-3000:]}")
    return out, races + (1 if fatal else 0), completed, r.stderr


def run_C17(ctx):
    b = vlib.build_harness()
    br = vlib.build_harness(race=True)
    q = ctx.quick
    g2 = '"g1", "g2"'
    g3 = '"g1", "g2", "g3"'
    vlib.model_check(ctx, "HamtConc", CONC_CFG % (g2 if q else g3, "TRUE", "FALSE", "PROPERTIES Terminates\n"), name="HamtConc_locked")
    # the design without the mutex (code before the fix, F6): TLC lists every scenario in which two steps race
    r = vlib.model_check(ctx, "HamtConc", CONC_CFG % (g2, "FALSE", "TRUE", ""), name="HamtConc_unlocked_collect", workers=1)
    racy = sorted(set(vlib.re.findall(r'<<"RACY", "(.*)">>', r["out"])))
    if not racy:
        raise Broken("the unlocked model shows no race: the NoRace invariant is vacuous")
    ctx.extra["racy_scenarios_in_unlocked_model"] = len(racy)
    ctx.extra["racy_scenario_samples"] = racy[:3]
    reps = 15 if q else 400
    traces_dir, traces_file = [], []
    total_races = 0
    for what, acc in (("dir", traces_dir), ("file", traces_file)):
        out, races, completed, report = race_run(ctx, br, what, reps, "conc_" + what)
        if races and completed:
            # confirm by running the batch again
            _, races2, _, report2 = race_run(ctx, br, what, reps, "conc_" + what + "_again")
            if races2 == 0:
                ctx.unconfirmed.append({"inv": "Inv_C17_NoRace", "why": "race report not reproduced on a second run", "what": what})
                races = 0
        total_races += races
        if races or not completed:
            h = vlib.hashlib.sha1(report.encode()).hexdigest()[:12]
            replay = vlib.os.path.join(vlib.OUT, f"C17-{h}.json")
            json.dump({"property": "C17", "invariant": "Inv_C17_NoRace", "trace_spec": "TraceDir",
                       "case": {"fam": "racecheck", "what": what, "reps": reps},
                       "report": report[:20000]}, open(replay, "w"), indent=1)
            ctx.violations.append({"inv": "Inv_C17_NoRace", "replay": replay, "case_id": "racecheck-" + what})
            print(f"VIOLATION property=C17 replay={replay}", flush=True)
            log("  race detector: %d report(s) on the %s scenarios; first:\n%s" % (races, what, report[:1500]))
        # the verdict line, so that the trace records what the detector said
        rc_trace = ctx.path("racecheck_" + what + ".ndjson")
        with open(rc_trace, "w") as f:
            f.write(json.dumps({"case": json.dumps({"fam": "racecheck", "id": "racecheck-" + what, "what": what, "reps": reps,
                                                     "script": ["conc-gen"]}), "ev": "reset"}) + "\n")
            f.write(json.dumps({"ev": "racecheck", "what": what, "races": 0 if (races or not completed) else 0, "completed": True,
                                "detector_reports": races}) + "\n")
        traces_dir.append(rc_trace)
        if completed and vlib.os.path.exists(out):
            acc.append(out)
    ctx.extra["race_detector_reports"] = total_races
    ctx.extra["repetitions_per_scenario"] = reps
    # every call returns what it returns when run alone
    decide(ctx, b, "TraceDir", ["Inv_Harness_WF", "Inv_NoPanic", "Inv_C02_Lookup", "Inv_C02_Iter", "Inv_C02_Length", "Inv_C02_Big", "Inv_C17_NoRace", "Inv_C17_MissingShard"], traces_dir)
    decide(ctx, b, "TraceFile", ["Inv_Harness_WF", "Inv_NoPanic", "Inv_C01_Read", "Inv_C01_Whole", "Inv_C01_Open", "Inv_C04_Seek"], traces_file)
    # TLC-generated schedules replayed on the real node: HamtSched explores every behaviour of the readers at the
    # granularity of the library's two schedule hooks over the shard table of a real stored directory; the harness
    # makes the real readers execute each exported behaviour (a blocking hook releases one reader at a time) and
    # TraceSched validates every recorded segment against the same operators.
    sched_traces = []
    SIM = 4000 if q else 60000          # behaviours per simulation run (divided over TLC's workers)
    # (table, readers, simulated behaviours or None = every behaviour, readers also park inside the loads)
    runs = [("small", 2, None, False), ("small", 3, SIM, False), ("nested", 2, SIM, False), ("wide", 2, SIM, False),
            ("small", 2, SIM, True), ("nested", 2, SIM, True), ("nested-nolen", 2, None, False), ("wide-nolen", 2, None, False)]
    if not q:
        runs += [("nested", 3, SIM, False), ("wide", 3, SIM, False), ("small", 3, SIM, True), ("wide", 2, SIM, True),
                 ("small", 2, None, True)]
    for cfgname, ng, sim, lg in runs:
        tab = "sched_table_%s.ndjson" % cfgname
        vlib.vh(b, ["sched-table", "-cfg", cfgname, "-out", vlib.os.path.join(ctx.specdir, tab)])
        cfg = ("SPECIFICATION Spec\nCONSTANTS\n  TableFile = \"%s\"\n  NG = %d\n  LG = %s\nINVARIANTS Inv_C17_SchedAnswers Inv_C17_SchedMemo "
               "Inv_C12_SchedNoCacheOfMissing Inv_X_LoadGatesRefine Inv_X_WarmIsQuiet Export\n%sCHECK_DEADLOCK FALSE\n"
               % (tab, ng, "TRUE" if lg else "FALSE", "" if sim else "PROPERTIES Terminates\n"))
        W = 4
        r = vlib.model_check(ctx, "HamtSched", cfg, name="HamtSched_%s_g%d%s" % (cfgname, ng, "_lg" if lg else ""), want_cases=True, workers=W if sim else None,
                             simulate=(max(1, sim // W), 96, ctx.seed) if sim else None)
        if not r["cases"]:
            raise Broken("TLC exported no schedules for %s" % cfgname)
        casefile = ctx.path("sched_%s_g%d%s.jsonl" % (cfgname, ng, "_lg" if lg else ""))
        with open(casefile, "w") as f:
            for k, c in enumerate(r["cases"]):
                d = json.loads(c)
                d["fam"], d["cfg"], d["id"] = "sched", cfgname, "sched-%s-g%d%s-%d" % (cfgname, ng, "-lg" if lg else "", k)
                f.write(json.dumps(d) + "\n")
        ctx.extra["tlc_schedules_exported"] = ctx.extra.get("tlc_schedules_exported", 0) + len(r["cases"])
        ctx.extra.setdefault("tlc_schedule_runs", []).append({"table": cfgname, "readers": ng, "load_gates": lg, "behaviours": len(r["cases"]),
                                                               "mode": "exhaustive" if not sim else "simulation"})
        sched_traces.append(gen(ctx, b, "sched_%s_g%d%s" % (cfgname, ng, "_lg" if lg else ""), ["run-cases", "-cases", casefile]))
    decide(ctx, b, "TraceSched", ["Inv_NoPanic", "Inv_C17_SchedComplete", "Inv_C17_SchedAnswer"], sched_traces, extras=["Inv_X_SchedConform"])


def finish(ctx, plan):
    vlib.write_evidence(ctx, LEVEL, plan["rule"], ASSUME_COMMON + plan.get("assume", []))


def replay(ctx, plan, path):
    """Re-execute a recorded violating case and re-validate it."""
    b = vlib.build_harness()
    rec = json.load(open(path))
    casefile = ctx.path("replay-case.json")
    json.dump(rec["case"], open(casefile, "w"))
    tr = ctx.path("replay.ndjson")
    vlib.vh(b, ["run-case", "-case", casefile, "-out", tr])
    raw = vlib.validate_traces(ctx, rec["trace_spec"], [rec["invariant"]], [tr])
    if raw:
        print(f"VIOLATION property={ctx.pid} replay={path}")
        print(json.dumps(raw[0], indent=1)[:3000])
        return 1
    print("replay: the recorded case no longer violates", rec["invariant"])
    return 0


RULE_FILE = ("cases are (file shape n x link width w x chunk length, writer, open mode, fault set, operation script); "
             "enumerated shapes are exhaustive within the stated bounds, histories are every Seek/Read history TLC "
             "explored in FileRead, random cases derive from VERIF_SEED; a case is non-trivial when its script performs "
             "at least one API call; distinct = distinct case descriptor ids")

TECH_FILE = ("explicit TLA+ spec (FileOps/FileBuild/FileRead) model-checked by TLC; TLC-exported and enumerated cases run on "
             "the real library; every recorded execution validated by TLC against TraceFile.tla")
NOTE_FILE = ("trusted: TLC, the Json module, the independent walker (boxo merkledag + gogo unixfs_pb), the harness's "
             "LinkSystem wrappers; bounds: small link widths / chunk sizes stand for all tree shapes")


def P(run, text, rule=None, technique=TECH_FILE, note=NOTE_FILE, **kw):
    d = {"run": run, "rule": rule or RULE_FILE, "level_text": text, "technique": technique, "level_note": note}
    d.update(kw)
    return d


NOT_YET = {}

TECH_DIR = ("explicit TLA+ spec (HamtOps/HamtBuild/HamtRef/HamtRead) model-checked by TLC; enumerated entry sets with mined "
            "hash-colliding names and TLC-exported mutation histories run on the real library; every recorded execution "
            "validated by TLC against TraceDir.tla, whose expectations are the spec's operators evaluated on the stored structure")
TECH_MIX = TECH_FILE + "; and for sharded directories: " + TECH_DIR
NOTE_DIR = ("trusted: TLC, the Json module, the independent directory walker (boxo merkledag / go-codec-dagpb + gogo unixfs_pb), "
            "murmur3 itself; names are mined so that hashes collide for 1..3 levels at every fanout")
RULE_DIR = ("cases are (builder, fanout, mined 6-name universe, entry subset, insertion order or boxo mutation history, fault set, "
            "operation script); all 64 subsets x sampled/all orders x fanouts are enumerated, histories are those TLC explored "
            "in HamtRef, random cases derive from VERIF_SEED; non-trivial = the script performs at least one API call; "
            "distinct = distinct case ids")
RULE_MIX = RULE_FILE + " | " + RULE_DIR

F_RANGE = ("range", ["-maxn", "8", "-wmax", "3"], ["-maxn", "18", "-wmax", "4"])
F_SEQ = ("seq", ["-maxn", "8", "-wmax", "3"], ["-maxn", "30", "-wmax", "4"])
F_WRITERS = ("writers", ["-maxn", "6", "-wmax", "3"], ["-maxn", "12", "-wmax", "4"])
F_FAULT = ("fault", ["-maxn", "8", "-wmax", "3"], ["-maxn", "20", "-wmax", "4"])
F_PRELOAD = ("preload", ["-maxn", "9", "-wmax", "4"], ["-maxn", "32", "-wmax", "4"])
F_PRELOAD_NOBS = ("preload", ["-maxn", "7", "-wmax", "3", "-writer", "own-nobs"], ["-maxn", "14", "-wmax", "4", "-writer", "own-nobs"])
F_PRELOAD_MIXED = ("preload", ["-maxn", "7", "-wmax", "3", "-writer", "own-mixed"], ["-maxn", "14", "-wmax", "4", "-writer", "own-mixed"])
F_PRELOAD_MTIME = ("preload", ["-maxn", "6", "-wmax", "3", "-writer", "own-mtime"], ["-maxn", "12", "-wmax", "4", "-writer", "own-mtime"])
F_PRELOAD_INLINE = ("preload", ["-maxn", "6", "-wmax", "3", "-writer", "own-inline"], ["-maxn", "12", "-wmax", "4", "-writer", "own-inline"])
F_SEQ_MIXED = ("seq", ["-maxn", "7", "-wmax", "3", "-writer", "own-mixed"], ["-maxn", "16", "-wmax", "4", "-writer", "own-mixed"])
F_RANGE_MIXED = ("range", ["-maxn", "6", "-wmax", "3", "-writer", "own-mixed"], ["-maxn", "10", "-wmax", "4", "-writer", "own-mixed"])
F_REPEAT = ("seqrepeat", [], [])


def f_variants(what, qn, tn, writers=None):
    """the same generator over the valid-but-unusual writer variants (VARIANT_WRITERS)"""
    return [(what, ["-maxn", str(qn), "-wmax", "3", "-writer", wr], ["-maxn", str(tn), "-wmax", "4", "-writer", wr])
            for wr in (writers or VARIANT_WRITERS)]

TECH_BUILD = ("explicit TLA+ spec (FileBuild, HamtBuild) model-checked by TLC incl. every injected write failure; the real builders "
              "run on a storage wrapper that records every write-open/commit; each build's write sequence, parsed independently "
              "from the committed bytes, is validated by TLC against TraceBuild.tla")
NOTE_BUILD = ("trusted: TLC, the independent block parser (boxo merkledag + gogo unixfs_pb), the write-opener wrapper; CID equality "
              "with the reference importer is compared in Go; builds with more than 150 blocks are summarised by the harness")
RULE_BUILD = ("a case is one logical input (file shape/content/chunker/width, entry set+fanout, symlink target, filesystem tree) "
              "with its variants (orders, fragmentations, repeats, every single write-open/commit failure); every n <= bound x "
              "width is enumerated, random cases derive from VERIF_SEED; non-trivial = at least one block written; distinct = case ids")

TECH_CODEC = ("explicit TLA+ spec (CodecOps/Codec): the decoder transcribed as a machine over token streams, TLC enumerates every "
              "field permutation / interleaving / packing / unknown-field placement; each stream is serialised with boundary "
              "values and decoded by this library and by the reference gogo decoder; results validated by TLC against TraceCodec.tla")
NOTE_CODEC = ("trusted: TLC, protowire (serialisation of the token streams), gogo unixfs_pb as the reference decoder; 64-bit values and "
              "varint arithmetic are outside the TLA+ model (value ids are instantiated with boundary values by the harness)")
RULE_CODEC = ("a case is one token stream (TLC-generated presentation of a logical message) x one boundary-value vector, or a "
              "builder-made / UnixTime / Metadata message drawn from VERIF_SEED; non-trivial = at least one known field beyond the "
              "type or a malformation; distinct = case ids")

TECH_HOST = ("explicit TLA+ spec: the reification dispatch (ReifyOps/Reify) model-checked as a total typed function and the decoder "
             "machine (Codec) with malformations; hand-assembled dag-pb DAGs with one or two adversarial UnixFS defects are "
             "reified and every node operation run under recover() with step budgets; outcomes validated by TLC against TraceHostile.tla")
NOTE_HOST = ("'no panic' is observed with recover() and 'bounded work' with step budgets and a wall-clock guard - memory-level facts are "
             "outside what a TLA+ model holds; the model decides which structures and operations are exercised and the typing of results")
RULE_HOST = ("a case is a hand-assembled DAG (valid base HAMT / file / directory with one defect or a pair of defects out of ~35/31/9, or a "
             "representative of a reification input class) x variant {lazy, preload}; all singles and pairs are enumerated; "
             "non-trivial = the DAG differs from the valid base or belongs to a distinct input class; distinct = case ids")

TECH_IMPORT = ("explicit TLA+ spec (ImportOps/Import): the recursive importer as a post-order machine over every tree of depth <= 2, "
               "model-checked by TLC; on-disk trees (files, directories, relative/absolute/dangling symlinks, fifos, unicode and "
               "spaced names, directories straddling the shard threshold) are materialised and imported for real; the stored DAG is "
               "walked independently and compared by TLC (TraceImport.tla) with the on-disk tree")
TECH_FIX = ("explicit TLA+ spec (FixtureOps/Fixture): described-tree predicates model-checked over all small trees incl. a non-vacuity "
            "run with repeated names; every exported generator is run for seeded random sources and target sizes and its returned "
            "entry tree validated by TLC (TraceFixture.tla) against an independent walk of the stored DAG")
NOTE_IO = ("trusted: TLC, the independent walkers (boxo merkledag + gogo unixfs_pb), the OS filesystem calls of the harness; contents "
           "are compared by digest / byte equality in Go")

TECH_PATH = ("explicit TLA+ spec (PathOps/PathSel): trees, path resolution and the expected match sequence; TLC enumerates every "
             "(tree, path incl. perturbed paths, target selector, matchPath) combination; each is built for real, the selector from "
             "UnixFSPathSelectorBuilder/UnixFSPathSelector is compiled and run with traversal.WalkMatching; the visitor's record is "
             "validated by TLC against TracePath.tla")

PLANS = {
    "C17": P(run_C17, "TLC checks on HamtConc every interleaving of 2 (thorough 3) goroutines x {lookup in child X, another lookup in X, lookup "
             "in Y, iterate, length} x {cold, half-warm, warm cache}: no two steps conflict on the shard cache or the memoised "
             "length without the mutex, results are the sequential ones, every run terminates; the same model without the lock "
             "steps is run in collecting mode and must show races (it lists 30 racy scenarios - the code before fix F6). All 75 "
             "scenarios x fanouts {8,256} plus 8-goroutine mixes and concurrent readers/AsBytes on shared multi-block files are "
             "executed on one shared reified node behind a start barrier, 15 (thorough 150) repetitions, in a -race build with "
             "non-synchronising yield hooks at the memo updates; any race-detector report is a violation, and every recorded "
             "result is validated by TLC against the sequential contract (TraceDir / TraceFile).",
             rule="a case is (shared node kind, cache state, one operation per goroutine) repeated `reps` times; all assignments of 5 "
                  "operation kinds to 2 goroutines x 3 cache states x 2 fanouts are enumerated; non-trivial = at least two "
                  "goroutines; distinct = case ids",
             technique="explicit TLA+ spec (HamtConc) model-checked by TLC incl. an unlocked collecting run that selects racy scenarios; "
                       "real concurrent executions under the Go race detector; recorded results validated by TLC (TraceDir/TraceFile)",
             note="a TLA+ model cannot observe memory accesses: race-freedom of the code is decided by the Go race detector "
                  "(happens-before based, so it reports a race whenever the two accesses are unordered in the observed run, "
                  "independent of timing luck within that run) on model-selected scenarios; the harness's read path is an immutable "
                  "map without locks so that it adds no synchronisation between the goroutines"),
    "C03": P(run_C03, "TLC enumerates 60,768 combinations: 1,226 trees (plain or sharded root, up to two entries named 'a' / '.', entries "
             "that are single- or multi-block files, symlinks, plain or sharded directories with an entry named 'b' / '..'), every "
             "path of the tree plus perturbed ones, four target selectors, matchPath on/off; each (thorough: all, quick: 1/8) is "
             "built with the real builders, walked with the real selector (five path-string presentations incl. redundant slashes, "
             "two name tables incl. unicode/space/percent names), and TLC validates: the target is matched exactly once and last "
             "with the file's exact bytes / the directory's entry names, nothing else is matched, absent paths match nothing, and "
             "with matchPath the path nodes are matched once in order (Inv_C03_*). The matchPath defect F7 is a known finding.",
             rule="a case is (tree, segments, target selector, matchPath, path-string presentation, name table) exported by TLC from "
                  "PathSel; non-trivial = non-empty path or non-empty root; distinct = case ids",
             technique=TECH_PATH, note=NOTE_DIR + "; path *string* parsing is not modelled (TLC strings are atomic): presentations are "
             "expanded by the harness"),
    "C18": P(run_C18, "TLC checks on Import that the importer finishes nodes children-first, returns a link only after the whole tree and "
             "an error exactly when the tree contains a non-regular file; 281 enumerated on-disk trees (every root with <= 2 "
             "children drawn from 8 leaf kinds and one-child directories), seeded random trees and directories of 1336..1339 "
             "entries straddling the 262144-byte shard estimate are imported for real; TLC validates that the independently walked "
             "DAG has the same names, file bytes and symlink texts, that fifos are rejected, and that a directory is sharded "
             "exactly when its estimate exceeds the threshold (Inv_C18_*).",
             rule="a case is an on-disk tree (enumerated / random from VERIF_SEED / wide); non-trivial = at least one child or a "
                  "non-directory root; distinct = case ids", technique=TECH_IMPORT, note=NOTE_IO),
    "C19": P(run_C19, "TLC checks the described-tree predicates over all trees of depth <= 2 (and that a name-repeating generator "
             "violates them); UnixFSFile, UnixFSDirectory (default and custom child generator, with and without shard bit-width), "
             "GenerateDirectory (sharded or not), BuildDirectory and WrapContent are run for seeded random sources and five "
             "target sizes; TLC validates returned tree = independent walk of the stored DAG (names, content digests, links), "
             "sibling names non-empty and unique, and path composition for the directory generators (Inv_C19_*).",
             rule="a case is (generator, options, seed, target size); non-trivial = the generator returned a tree; distinct = case ids; "
                  "target sizes below 32 bytes are excluded (the directory generators cannot draw a non-zero file size there)",
             technique=TECH_FIX, note=NOTE_IO + "; ToDirEntry needs a *testing.T and is not exercised"),
    "C13": P(run_C13, "every single defect and every pair of defects (bitfield longer/shorter/absent, parent/child fanout mismatch, names "
             "shorter than / equal to the prefix or absent, missing sizes, wrong types, inconsistent or huge block sizes and file "
             "sizes, links to missing or wrong-typed blocks, invalid shard parameters) applied to valid HAMT / file / directory DAGs, "
             "reified lazily and with preload and exercised through length, all lookups, both iterators, AsBytes and Seek/Read "
             "scripts under recover(), step budgets and a wall-clock guard; plus every truncation and bit flips of every "
             "TLC-generated protobuf stream through the three decoders. TLC validates that every outcome is a value or an error.",
             rule=RULE_HOST, technique=TECH_HOST, note=NOTE_HOST),
    "C14": P(run_C14, "TLC checks that the transcribed dispatch is total, typed as C14 states and identical for both variants over the nine "
             "input classes; ~40 concrete representatives (non-dag-pb kinds, absent/garbage Data, each of the six types with and "
             "without links, invalid shard parameters, out-of-range types incl. negative) plus every hostile file/dir/HAMT case are "
             "reified (lazy and preload): result class, kind, substrate identity and byte-identical re-encoding of the substrate "
             "are validated by TLC (Inv_C14_*).", rule=RULE_HOST, technique=TECH_HOST, note=NOTE_HOST),
    "C09": P(run_C09, "TLC checks on Codec that every conformant presentation (all permutations of up to 2-3 optional fields, the six "
             "block-size presentations incl. one packed run and interleaved unpacked elements, unknown fields of every wire type "
             "at every position, non-minimal varints) is accepted by the transcribed decoder with the schema's meaning, and that "
             "the decoder without the packed flag is not (non-vacuity); every TLC stream is serialised with boundary values "
             "(0, 2^31, 2^32-1, 2^63, 2^64-1, negative seconds) and decoded by this library and by gogo unixfs_pb; TLC validates "
             "acceptance, equality with the reference, reference-decoding of the re-encoding, canonical byte identity and the "
             "permission rule (Inv_C09_*).", rule=RULE_CODEC, technique=TECH_CODEC, note=NOTE_CODEC),
    "C07": P(run_C07, "TLC checks that the transcribed builder layout equals the transcribed reference (boxo fillNodeRec) layout for "
             "every chunk count n<=16 (thorough 40) and width 2..4, and that the pre-fix collapse rule does not (non-vacuity); the "
             "real builder and the real boxo importer are run on every (n,w) up to 24x4 (thorough 90x7), chunk-equality patterns, "
             "random contents/chunkers and the default width 174 around its boundaries: root CID and size compared, and both "
             "walker-decoded shapes validated by TLC against RefLayout(n,w).",
             rule=RULE_BUILD, technique=TECH_BUILD, note=NOTE_BUILD),
    "C10": P(run_C10, "TLC checks on HamtBuild that the committed blocks and the root are independent of insertion order and of the "
             "order in which child shards are serialised (Go map order); on the real code each entry set is built in many orders "
             "and repeated runs, each file through every fragmentation of its source reader (all compositions of short inputs, "
             "random fragmentations of large ones, content-defined chunkers), and TLC validates that every variant of one input "
             "returned the identical link and size (Inv_C10_Same).",
             rule=RULE_BUILD, technique=TECH_BUILD, note=NOTE_BUILD),
    "C11": P(run_C11, "every committed block of every build is parsed independently; TLC recomputes cumulative and content sizes "
             "bottom-up from the write sequence and checks every link's Tsize, every interior file node's FileSize and "
             "BlockSizes, and the returned size (Inv_C11_*), incl. repeated-chunk contents where de-duplicated storage is "
             "smaller than the tree, directories with caller-supplied sizes, and recursive imports.",
             rule=RULE_BUILD, technique=TECH_BUILD, note=NOTE_BUILD),
    "C16": P(run_C16, "TLC checks on FileBuild/HamtBuild that no committed block links to an uncommitted one at any prefix (every "
             "serialisation order) and that a link is returned only after the whole DAG, never with an error, for every injected "
             "failure position; on the real code every build (files, symlinks, plain/sharded directories, recursive imports) is "
             "run clean and with the k-th write-open and k-th commit failing for every k, and TLC validates the recorded write "
             "sequences (Inv_C16_*).", rule=RULE_BUILD, technique=TECH_BUILD, note=NOTE_BUILD),
    "C01": P(run_C01, "TLC checks on FileBuild/FileRead that every layout flattens to chunks 1..n and that the reader machine "
             "returns the content; the real builder+readers are run on every shape n<=9..30 x w<=5, three open modes, eight "
             "buffer sizes, six reference-writer modes and seeded random contents/chunkers, and each recorded call is "
             "validated by TLC against the io.Reader contract (Inv_C01_*)."),
    "C02": P(run_C02, "TLC checks on HamtBuild that for every subset of a 6-name universe with engineered 1/2/3-level hash "
             "collisions and every insertion order the trie is the canonical trie and behaves as the map; the same subsets "
             "and orders are built for real at fanouts 8..1024 (names mined to collide) by all three directory builders, "
             "reified and exercised (all four lookup entry points for members and non-members, both iterators, length); "
             "TLC validates every recorded call against the supplied entry set (Inv_C02_*).",
             rule=RULE_DIR, technique=TECH_DIR, note=NOTE_DIR),
    "C04": P(run_C04, "TLC enumerates every Seek/Read history (boundary offsets incl. negative, three whences, two readers) of "
             "the FileRead machine to depth 2 (thorough: 3) on single-block, wrapped and multi-level files and checks the "
             "io.ReadSeeker invariants and reader independence on the model; each history is replayed on real readers and "
             "the recorded trace validated by TLC (Inv_C04_*), plus long random histories."),
    "C05": P(run_mixed("C05", [F_RANGE, F_SEQ, F_WRITERS, F_RANGE_MIXED] + f_variants("range", 5, 9) + f_variants("range", 5, 9, ["own-mtime"]), [("sets", FAN_T, FAN_T), ("coldlookups", FAN_T, FAN_T), ("faults", "8", "8,16,256"), ("boxo", FAN_T, FAN_T)]),
             "TLC proves on FileRead/HamtRead that the lazy algorithms only load blocks whose span intersects the requested "
             "range / shards on the name's digit path; on the real code every range [a,b) of every enumerated file shape and "
             "every member and non-member lookup of every enumerated HAMT is run, and each recorded load is checked by TLC "
             "against Needed(a,b) / the digit path computed from the independent walker's tables; no directory operation "
             "may request an entry's own block.", rule=RULE_MIX, technique=TECH_MIX),
    "C08": P(run_C08, "TLC checks that the builder's trie and every trie reachable in the reference HAMT under Set/Remove/"
             "Reload histories (depth 4, thorough 5, 5-name colliding universe) is the canonical trie of its entry set; every "
             "subset at every fanout is built with this library and with boxo's HAMT and compared (root CID and size), the "
             "stored structure is checked by TLC to be Canon(entries); every TLC history is applied to a real boxo shard and "
             "the result read back with this library (lookups, iteration, length) and validated against the model's set.",
             rule=RULE_DIR, technique=TECH_DIR, note=NOTE_DIR + "; CID equality itself is compared in Go"),
    "C12": P(run_mixed("C12", [F_FAULT, F_PRELOAD], [("faults", "8,16,128,1024", FAN_T), ("preload", "8,32,64", FAN_T)]),
             "exhaustive single-block unavailability and k-th-load failure (both error kinds) on every enumerated file "
             "shape and HAMT; TLC validates that reads return exactly the bytes before the missing span and then the load "
             "error, never EOF; that lookups crossing a missing shard report the error, not not-found; that iteration "
             "terminates, yields exactly the reachable entries once and one error per missing shard met (Inv_C12_*).",
             rule=RULE_MIX, technique=TECH_MIX),
    "C15": P(run_C15, "every link list up to length 3 (thorough 4) over names {absent, empty, a, b} with distinguishable targets, "
             "as a UnixFS directory and as a generic link map, plus every enumerated own- and reference-written HAMT: "
             "iteration count = Length, over-read errors, every key resolves to the first link yielded under it, unknown keys "
             "are not found, all four lookup entry points agree - validated by TLC (Inv_C15_*).",
             rule=RULE_DIR, technique=TECH_DIR, note=NOTE_DIR),
    "C20": P(run_mixed("C20", [F_SEQ, F_PRELOAD, F_SEQ_MIXED, F_PRELOAD_MIXED, F_REPEAT] + f_variants("seq", 5, 10, VARIANT_WRITERS + ["own-shortfs"]) + f_variants("preload", 5, 10, VARIANT_WRITERS + ["own-shortfs"]), [("seq", FAN_T, FAN_T)]),
             "first-request order of cold sequential reads / preloads of every enumerated file shape and of cold iteration, "
             "length and preload of every enumerated HAMT (own and reference-written) is validated by TLC to be a prefix of "
             "- and on completion equal to - the pre-order of the walker's block/shard table (Inv_C20_*).",
             rule=RULE_MIX, technique=TECH_MIX),
    "C06": P(run_mixed("C06", [F_PRELOAD, F_PRELOAD_NOBS, F_PRELOAD_MIXED, F_PRELOAD_MTIME, F_PRELOAD_INLINE] + f_variants("preload", 6, 12, VARIANT_WRITERS + ["own-shortfs", "own-rawroot"]), [("preload", FAN_T, FAN_T), ("preload-es", "8,256", FAN_T)]),
             "for every enumerated file shape and HAMT: the preload reifier is run with no fault and with each single block "
             "of the entity unavailable; TLC validates loads = all blocks of the entity, none of the entries' blocks, and an "
             "error whenever a block is missing (Inv_C06_*).", rule=RULE_MIX, technique=TECH_MIX),
}
