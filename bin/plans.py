"""Per-property check plans (what is model-checked, which scenarios the harness
runs on the real code, which trace specification and invariants decide)."""
import json
import os

import vlib
from vlib import Broken, log

LEVEL = "model_checking"

# ----------------------------------------------------------------------------
# configs for the spec machines


def cfg_filebuild(maxn, widths, collapse="seeded", invs=None, props=("Terminates",)):
    invs = invs or ["Inv_C07_Shape", "Inv_C01_Flatten", "Inv_C16_NoDangling", "Inv_C16_Result", "Inv_C11_Sizes"]
    s = "SPECIFICATION Spec\nCONSTANTS\n  MaxN = %d\n  Widths = {%s}\n  Collapse = \"%s\"\n" % (
        maxn, ",".join(map(str, widths)), collapse)
    s += "INVARIANTS " + " ".join(invs) + "\n"
    if props:
        s += "PROPERTIES " + " ".join(props) + "\n"
    s += "CHECK_DEADLOCK FALSE\n"
    return s


def cfg_fileread(n, w, k, last, depth, readers=(1, 2), missing=(), export=True):
    invs = ["Inv_C04_PosNonNeg", "Inv_C04_Seek", "Inv_C04_Read", "Inv_C05_NoOverfetch", "Inv_C12_ErrIffMissing"]
    if export:
        invs.append("Export")
    return ("SPECIFICATION Spec\nCONSTANTS\n  Readers = {%s}\n  N = %d\n  W = %d\n  K = %d\n  LastLen = %d\n  Depth = %d\n"
            "  Missing = {%s}\n  B <- MCB\n  Content <- MCContent\n  Offsets <- MCOffsets\n  Ks <- MCKs\n"
            "INVARIANTS %s\nPROPERTIES Act_C04_Independent\nCHECK_DEADLOCK FALSE\n") % (
        ",".join(map(str, readers)), n, w, k, last, depth, ",".join(map(str, missing)), " ".join(invs))


FILE_INVS = {
    "C01": ["Inv_Harness_WF", "Inv_NoPanic", "Inv_C01_Dag", "Inv_C01_Read", "Inv_C01_Whole", "Inv_C01_Open", "Inv_C01_SeekEnd"],
    "C04": ["Inv_Harness_WF", "Inv_NoPanic", "Inv_C04_Seek", "Inv_C04_Read", "Inv_C04_NoBudget"],
    "C05": ["Inv_Harness_WF", "Inv_NoPanic", "Inv_C05_Read", "Inv_C05_Seek", "Inv_C05_Open"],
    "C06": ["Inv_Harness_WF", "Inv_NoPanic", "Inv_C06_Preload"],
    "C12": ["Inv_Harness_WF", "Inv_NoPanic", "Inv_C12_Read", "Inv_C12_Whole", "Inv_C12_NoBudget"],
    "C20": ["Inv_Harness_WF", "Inv_NoPanic", "Inv_C20_Order", "Inv_C20_Complete"],
}

ASSUME_COMMON = [
    "TLC 1.8.0 and the CommunityModules Json/IOUtils modules evaluate the specifications correctly",
    "the harness's independent walker (boxo merkledag + gogo unixfs_pb decoders) reads stored blocks correctly; "
    "its block tables are checked for well-formedness by Inv_Harness_WF",
    "all storage traffic of the library goes through the LinkSystem callbacks the harness owns",
]


def gen(ctx, binpath, name, args):
    out = ctx.path(name + ".ndjson")
    vlib.vh(binpath, list(args) + ["-out", out])
    return out


def decide(ctx, binpath, module, invs, traces):
    raw = vlib.validate_traces(ctx, module, invs, traces)
    vlib.handle_violations(ctx, binpath, module, invs, raw)


# ----------------------------------------------------------------------------
# file family

def hist_traces(ctx, binpath, shapes, depth, readers, opens=("direct",)):
    """TLC explores every Seek/Read history of FileRead up to `depth` for each
    shape and exports it; the harness replays each on real readers."""
    traces = []
    for (n, w, k, last, writer) in shapes:
        r = vlib.model_check(ctx, "MCFileRead", cfg_fileread(n, w, k, last, depth, readers=readers),
                             name=f"MCFileRead_{n}_{w}_{k}_{last}_d{depth}_r{len(readers)}", want_cases=True)
        if not r["cases"]:
            raise Broken("TLC exported no histories")
        casefile = ctx.path(f"hist_{n}_{w}_{k}_{last}_{depth}_{len(readers)}.jsonl")
        open(casefile, "w").write("\n".join(r["cases"]) + "\n")
        ctx.extra["tlc_histories_exported"] = ctx.extra.get("tlc_histories_exported", 0) + len(r["cases"])
        for op in opens:
            traces.append(gen(ctx, binpath, f"hist_{n}_{w}_{k}_{last}_{writer}_{op}_d{depth}_r{len(readers)}",
                              ["file-hist", "-n", n, "-w", w, "-k", k, "-last", last, "-cases", casefile, "-open", op,
                               "-writer", writer, "-readers", max(readers)]))
    return traces


def run_C01(ctx):
    b = vlib.build_harness()
    q = ctx.quick
    vlib.model_check(ctx, "FileBuild", cfg_filebuild(16 if q else 40, [2, 3, 4],
                     invs=["Inv_C01_Flatten", "Inv_C11_Sizes"], props=()), name="FileBuild_C01")
    vlib.model_check(ctx, "MCFileRead", cfg_fileread(5, 2, 3, 2, 2, readers=(1,), export=False), name="MCFileRead_contract")
    t = [gen(ctx, b, "seq", ["file-gen", "-what", "seq", "-maxn", 9 if q else 30, "-wmax", 4 if q else 5]),
         gen(ctx, b, "seqk1", ["file-gen", "-what", "seq", "-maxn", 8 if q else 20, "-wmax", 3, "-k", 1]),
         gen(ctx, b, "writers", ["file-gen", "-what", "writers", "-maxn", 6 if q else 14, "-wmax", 3 if q else 4]),
         gen(ctx, b, "random", ["file-gen", "-what", "random", "-count", 40 if q else 600, "-seed", ctx.seed])]
    ctx.exhaustive = False
    decide(ctx, b, "TraceFile", FILE_INVS["C01"], t)


def run_C04(ctx):
    b = vlib.build_harness()
    q = ctx.quick
    shapes = [(1, 2, 3, 3, "own"), (1, 2, 3, 3, "boxo-balanced-pb-v0"), (3, 2, 3, 2, "own"), (5, 2, 3, 2, "own")]
    t = hist_traces(ctx, b, shapes, 2, (1, 2), opens=("direct", "reify"))
    if not q:
        t += hist_traces(ctx, b, [(5, 2, 3, 2, "own"), (1, 2, 3, 3, "boxo-balanced-pb-v0"), (7, 3, 2, 1, "boxo-balanced-pb-v1")],
                         3, (1,), opens=("direct",))
    t.append(gen(ctx, b, "randhist", ["file-gen", "-what", "randhist", "-count", 150 if q else 3000, "-seed", ctx.seed]))
    t.append(gen(ctx, b, "random", ["file-gen", "-what", "random", "-count", 25 if q else 300, "-seed", ctx.seed + 7]))
    ctx.exhaustive = True
    decide(ctx, b, "TraceFile", FILE_INVS["C04"], t)


def run_file_simple(pid, what_list):
    def run(ctx):
        b = vlib.build_harness()
        q = ctx.quick
        vlib.model_check(ctx, "MCFileRead", cfg_fileread(5, 2, 3, 2, 2, readers=(1,), export=False), name="MCFileRead_contract")
        vlib.model_check(ctx, "MCFileRead", cfg_fileread(5, 2, 3, 2, 3, readers=(1,), missing=(4,), export=False),
                         name="MCFileRead_missing4")
        t = []
        for what, qa, ta in what_list:
            t.append(gen(ctx, b, what, ["file-gen", "-what", what] + (qa if q else ta) + ["-seed", ctx.seed]))
        ctx.exhaustive = True
        decide(ctx, b, "TraceFile", FILE_INVS[pid], t)
    return run


def finish(ctx, plan):
    vlib.write_evidence(ctx, LEVEL, plan["rule"], ASSUME_COMMON + plan.get("assume", []))


def replay(ctx, plan, path):
    """Re-execute a recorded violating case and re-validate it."""
    b = vlib.build_harness()
    rec = json.load(open(path))
    casefile = ctx.path("replay-case.json")
    json.dump(rec["case"], open(casefile, "w"))
    tr = ctx.path("replay.ndjson")
    vlib.vh(b, ["run-case", "-case", casefile, "-out", tr])
    raw = vlib.validate_traces(ctx, rec["trace_spec"], [rec["invariant"]], [tr])
    if raw:
        print(f"VIOLATION property={ctx.pid} replay={path}")
        print(json.dumps(raw[0], indent=1)[:3000])
        return 1
    print("replay: the recorded case no longer violates", rec["invariant"])
    return 0


RULE_FILE = ("cases are (file shape n x link width w x chunk length, writer, open mode, fault set, operation script); "
             "enumerated shapes are exhaustive within the stated bounds, histories are every Seek/Read history TLC "
             "explored in FileRead, random cases derive from VERIF_SEED; a case is non-trivial when its script performs "
             "at least one API call; distinct = distinct case descriptor ids")

TECH_FILE = ("explicit TLA+ spec (FileOps/FileBuild/FileRead) model-checked by TLC; TLC-exported and enumerated cases run on "
             "the real library; every recorded execution validated by TLC against TraceFile.tla")
NOTE_FILE = ("trusted: TLC, the Json module, the independent walker (boxo merkledag + gogo unixfs_pb), the harness's "
             "LinkSystem wrappers; bounds: small link widths / chunk sizes stand for all tree shapes")


def P(run, text, rule=None, technique=TECH_FILE, note=NOTE_FILE, **kw):
    d = {"run": run, "rule": rule or RULE_FILE, "level_text": text, "technique": technique, "level_note": note}
    d.update(kw)
    return d


NOT_YET = {}

PLANS = {
    "C01": P(run_C01, "TLC checks on FileBuild/FileRead that every layout flattens to chunks 1..n and that the reader machine "
             "returns the content; the real builder+readers are run on every shape n<=9..30 x w<=5, three open modes, eight "
             "buffer sizes, six reference-writer modes and seeded random contents/chunkers, and each recorded call is "
             "validated by TLC against the io.Reader contract (Inv_C01_*)."),
    "C04": P(run_C04, "TLC enumerates every Seek/Read history (boundary offsets incl. negative, three whences, two readers) of "
             "the FileRead machine to depth 2 (thorough: 3) on single-block, wrapped and multi-level files and checks the "
             "io.ReadSeeker invariants and reader independence on the model; each history is replayed on real readers and "
             "the recorded trace validated by TLC (Inv_C04_*), plus long random histories."),
    "C05": P(run_file_simple("C05", [("range", ["-maxn", "8", "-wmax", "3"], ["-maxn", "14", "-wmax", "4"]),
                                     ("seq", ["-maxn", "8", "-wmax", "3"], ["-maxn", "20", "-wmax", "4"]),
                                     ("writers", ["-maxn", "6", "-wmax", "3"], ["-maxn", "12", "-wmax", "4"])]),
             "TLC proves on FileRead that the lazy cursor algorithm only loads blocks whose span intersects the requested "
             "range; on the real code every range [a,b) of every enumerated shape is read via Seek+ReadFull and each "
             "recorded load is checked by TLC against Needed(a,b) computed from the independent walker's block table."),
    "C12": P(run_file_simple("C12", [("fault", ["-maxn", "8", "-wmax", "3"], ["-maxn", "16", "-wmax", "4"])]),
             "exhaustive single-block unavailability and k-th-load failure (both error kinds) on every enumerated file "
             "shape; TLC validates that reads return exactly the bytes before the missing span, then the load error, "
             "never EOF (Inv_C12_*); the model-level counterpart is checked on FileRead with a Missing set.",
             ),
    "C20": P(run_file_simple("C20", [("seq", ["-maxn", "9", "-wmax", "4"], ["-maxn", "30", "-wmax", "5"]),
                                     ("preload", ["-maxn", "9", "-wmax", "4"], ["-maxn", "20", "-wmax", "4"])]),
             "first-request order of cold sequential reads and preloads of every enumerated shape is validated by TLC to "
             "be a prefix of (and on completion equal to) the pre-order of the walker's block table (Inv_C20_*)."),
}
