#!/usr/bin/env python3
"""Shared driver code for /verif/bin/check.

A property check = (1) TLC model-checks the family's specification under small
constants and (optionally) exports the cases it explored; (2) the Go harness
`vh` (built against /repo's working tree with -tags verif) runs scenarios on
the real library and records ndjson traces; (3) TLC validates every trace
against the family's Trace*.tla with the property's named invariants;
(4) a violated invariant is re-executed from its case descriptor, looked up in
known_findings.json and reported.

Exit codes: 0 property held on everything explored, 1 violation (confirmed on
re-execution and not a listed known finding), 2 the check itself is broken.
"""
import concurrent.futures as cf
import hashlib
import json
import os
import re
import shutil
import subprocess
import sys
import tempfile
import time

VERIF = os.path.dirname(os.path.dirname(os.path.abspath(__file__)))
REPO = os.environ.get("VERIF_REPO", "/repo")
SPEC = os.path.join(VERIF, "spec")
BUILD = os.path.join(VERIF, ".build")
WORKROOT = os.path.join(VERIF, ".work")
OUT = os.path.join(VERIF, "out")
# bin/seedtest redirects the evidence of its runs on deliberately broken trees (never a registered command)
EVID = os.environ.get("VERIF_EVIDENCE_DIR") or os.path.join(VERIF, "evidence")
JAR = "/opt/veriftools/tla/tla2tools.jar:/opt/veriftools/tla/CommunityModules-deps.jar"
NCPU = os.cpu_count() or 4

GOENV = dict(os.environ, GOFLAGS="-mod=mod", GOPROXY="off", GOSUMDB="off", GOTOOLCHAIN="local")


class Broken(Exception):
    """The check could not do its job (exit 2) - never a violation."""


def log(*a):
    print("[check]", *a, file=sys.stderr, flush=True)


class Ctx:
    def __init__(self, pid, tier, seed):
        self.pid, self.tier, self.seed = pid, tier, seed
        self.t0 = time.time()
        os.makedirs(WORKROOT, exist_ok=True)
        os.makedirs(OUT, exist_ok=True)
        os.makedirs(EVID, exist_ok=True)
        self.work = tempfile.mkdtemp(prefix=f"{pid}-{tier}-", dir=WORKROOT)
        self.specdir = os.path.join(self.work, "spec")
        shutil.copytree(SPEC, self.specdir)
        self.mc_states = 0
        self.mc_transitions = 0
        self.mc_runs = []
        self.trace_states = 0
        self.traces = 0          # cases (one trace per case) validated against the implementation
        self.events = 0
        self.case_ids = set()
        self.samples = []
        self.violations = []     # confirmed, not known
        self.known = []          # matched known findings
        self.unconfirmed = []
        self.notes = []
        self.exhaustive = False
        self.extra = {}
        self.quick = tier == "quick"

    def cleanup(self):
        shutil.rmtree(self.work, ignore_errors=True)

    def path(self, *a):
        return os.path.join(self.work, *a)


# --------------------------------------------------------------------------
# building the harness against the current /repo working tree

def build_harness(race=False):
    os.makedirs(BUILD, exist_ok=True)
    hdir = os.path.join(VERIF, "harness")
    # go.mod's replace directive points at /repo; VERIF_REPO overrides it for
    # seeded-change self tests (never for registered commands)
    out = os.path.join(BUILD, "vh-race" if race else "vh")
    modfile = []
    if REPO != "/repo":
        alt = os.path.join(BUILD, "go.alt.mod")
        src = open(os.path.join(hdir, "go.mod")).read().replace("=> /repo", "=> " + REPO)
        open(alt, "w").write(src)
        shutil.copy(os.path.join(hdir, "go.sum"), os.path.join(BUILD, "go.alt.sum"))
        modfile = ["-modfile", alt]
        out += "-alt"
    cover = []
    if os.environ.get("VERIF_COVER") and not race:
        # bin/coverage: statement coverage of the library reached by the harness (GOCOVERDIR must be set)
        cover = ["-cover", "-coverpkg=github.com/ipfs/go-unixfsnode/...,verifharness/..."]
        out += "-cover"
    cmd = ["go", "build", "-tags", "verif"] + modfile + cover + (["-race"] if race else []) + ["-o", out, "./cmd/vh"]
    r = subprocess.run(cmd, cwd=hdir, env=GOENV, capture_output=True, text=True)
    if r.returncode != 0:
        raise Broken("harness build failed:\n" + r.stdout + r.stderr)
    return out


class Crashed(Exception):
    """The harness process was taken down by the library under test: a Go runtime fatal error (out of memory, stack
    overflow, ...) or a kill signal - conditions recover() cannot catch.  An outcome of the case, not a broken check."""


def vh(binpath, args, timeout=1800, env=None):
    r = subprocess.run([binpath] + [str(a) for a in args], capture_output=True, text=True, timeout=timeout,
                       env=env or os.environ)
    if r.returncode != 0 and (r.returncode < 0 or "fatal error:" in r.stderr):
        m = re.search(r"fatal error:[^\n]*", r.stderr)
        raise Crashed(m.group(0) if m else f"killed by signal {-r.returncode}")
    if r.returncode != 0:
        raise Broken(f"vh {' '.join(map(str, args))} failed ({r.returncode}):\n{r.stdout[-2000:]}{r.stderr[-4000:]}")
    return r.stdout


def mark_crash(trace, why):
    """The harness died while writing `trace`: keep the complete lines (every case's reset line is flushed before the
    case runs), and record the crash as the outcome of the last case started."""
    lines = []
    if os.path.exists(trace):
        for ln in open(trace, errors="replace").read().split("\n"):
            try:
                json.loads(ln)
            except Exception:
                break
            lines.append(ln)
    if not any('"ev":"reset"' in ln for ln in lines):
        raise Broken("harness crashed before its first case: " + why)
    lines.append(json.dumps({"ev": "crash", "e": "panic", "info": why[:200]}))
    open(trace, "w").write("\n".join(lines) + "\n")


# --------------------------------------------------------------------------
# TLC

def java_tlc(cwd, module, cfg, workers=1, env=None, timeout=3600, xmx="3g", extra=()):
    meta = tempfile.mkdtemp(prefix="meta-", dir=cwd)
    cmd = ["java", "-XX:+UseParallelGC", f"-Xmx{xmx}", "-Xss512m", "-cp", JAR, "tlc2.TLC", "-workers", str(workers),
           "-metadir", meta, "-config", cfg, *extra, module]
    e = dict(os.environ)
    if env:
        e.update(env)
    try:
        r = subprocess.run(cmd, cwd=cwd, env=e, capture_output=True, text=True, timeout=timeout)
    except subprocess.TimeoutExpired:
        raise Broken(f"TLC timed out on {module} {cfg}")
    finally:
        shutil.rmtree(meta, ignore_errors=True)
    return r.returncode, r.stdout + r.stderr


RE_STATES = re.compile(r"(\d+) states generated, (\d+) distinct states found")
RE_CASE = re.compile(r'^<<"CASE", "(.*)">>$')
RE_VIOL = re.compile(r'<<"VIOL", "(\w+)", (\d+)>>')


def tla_unescape(s):
    # TLC prints strings with \" and \\ escapes
    return s.replace('\\"', '"').replace("\\\\", "\\")


def model_check(ctx, module, cfg_text, name=None, workers=None, timeout=3600, expect_violation=None, want_cases=False, simulate=None):
    """Run TLC on a spec machine.  Returns dict(states, distinct, cases).
    simulate=(num, depth, seed): random behaviours (tlc -simulate) instead of the exhaustive search."""
    name = name or module
    cfgname = f"{name}.cfg"
    open(os.path.join(ctx.specdir, cfgname), "w").write(cfg_text)
    t = time.time()
    extra = ()
    if simulate:
        extra = ("-simulate", "num=%d" % simulate[0], "-depth", str(simulate[1]), "-seed", str(simulate[2]))
    rc, out = java_tlc(ctx.specdir, module + ".tla", cfgname, workers=workers or min(NCPU, 8), timeout=timeout, xmx="8g", extra=extra)
    m = RE_STATES.findall(out)
    if simulate:
        ms = re.findall(r"The number of states generated: (\d+)", out)
        if not ms or rc != 0 or "Error:" in out or "is violated" in out:
            raise Broken(f"TLC simulation of {name} failed (rc={rc}):\n{out[-3000:]}")
        cases = sorted(set(tla_unescape(mm.group(1)) for mm in (RE_CASE.match(ln.strip()) for ln in out.splitlines()) if mm))
        ctx.mc_transitions += int(ms[-1])
        ctx.mc_runs.append({"spec": name, "distinct_states": 0, "states_generated": int(ms[-1]), "wall_s": round(time.time() - t, 1),
                            "expected_violation": "", "mode": "simulate num=%d depth=%d seed=%d" % simulate})
        log(f"model {name} (simulation): {ms[-1]} states, {len(cases)} distinct behaviours, {time.time()-t:.1f}s")
        return {"states": int(ms[-1]), "distinct": 0, "cases": cases, "out": out}
    if not m:
        if expect_violation and f"Invariant {expect_violation} is violated" in out:
            m = [("1", "1")]     # violated already by an initial state
        else:
            raise Broken(f"TLC produced no state count for {name}:\n{out[-3000:]}")
    gen, dist = map(int, m[-1])
    cases = []
    if want_cases:
        for ln in out.splitlines():
            mm = RE_CASE.match(ln.strip())
            if mm:
                cases.append(tla_unescape(mm.group(1)))
    violated = re.findall(r"Invariant (\w+) is violated|property (\w+) was violated|Temporal properties were violated", out)
    if expect_violation:
        if not violated:
            raise Broken(f"{name}: expected the model to violate {expect_violation} (non-vacuity check) but TLC found no error")
    else:
        if rc != 0 or "No error has been found" not in out:
            raise Broken(f"model check {name} failed (rc={rc}):\n{out[-3000:]}")
    ctx.mc_states += dist
    ctx.mc_transitions += gen
    ctx.mc_runs.append({"spec": name, "distinct_states": dist, "states_generated": gen, "wall_s": round(time.time() - t, 1),
                        "expected_violation": expect_violation or ""})
    log(f"model {name}: {dist} distinct states, {gen} generated, {len(cases)} cases, {time.time()-t:.1f}s")
    return {"states": gen, "distinct": dist, "cases": cases, "out": out}


def split_trace(path, maxlines=15000):
    """Split an ndjson trace at case boundaries ("ev":"reset") into shards."""
    shards = []
    cur, n = [], 0
    base = path[:-7] if path.endswith(".ndjson") else path
    with open(path) as f:
        for ln in f:
            if is_reset(ln):
                if n >= maxlines:
                    shards.append(cur)
                    cur, n = [], 0
            cur.append(ln)
            n += 1
    if cur:
        shards.append(cur)
    out = []
    for i, sh in enumerate(shards):
        p = f"{base}.s{i}.ndjson"
        with open(p, "w") as f:
            f.writelines(sh)
        out.append(p)
    return out


def is_reset(ln):
    return '"ev":"reset"' in ln


def _validate_one(specdir, module, cfgname, trace):
    rc, out = java_tlc(specdir, module + ".tla", cfgname, workers=1, env={"TRACE": trace}, timeout=3600, xmx="2g")
    return trace, rc, out


def validate_traces(ctx, module, invariants, traces, maxlines=15000, action_props=(), count=True):
    """Validate ndjson traces against Trace spec `module` with the named invariants.

    The Inv_* operators of the trace specs are *collecting*: a violated
    condition prints <<"VIOL", name, line>> and evaluation continues, so one TLC
    pass over a shard reports every violating line.  Returns the raw
    violations: dict(inv, line, case, event, excerpt)."""
    cfgname = f"{module}.{ctx.pid}.cfg"
    cfg = "SPECIFICATION TraceSpec\nINVARIANTS\n" + "\n".join("  " + i for i in invariants) + "\n"
    if action_props:
        cfg += "PROPERTIES\n" + "\n".join("  " + i for i in action_props) + "\n"
    cfg += "ALIAS Alias\nCHECK_DEADLOCK TRUE\n"
    open(os.path.join(ctx.specdir, cfgname), "w").write(cfg)
    shards = []
    for t in traces:
        if os.path.getsize(t) == 0:
            continue
        shards += split_trace(t, maxlines)
    raw = []
    with cf.ThreadPoolExecutor(max_workers=NCPU) as ex:
        futs = [ex.submit(_validate_one, ctx.specdir, module, cfgname, t) for t in shards]
        for fu in futs:
            trace, rc, out = fu.result()
            lines = open(trace).read().splitlines(keepends=True)
            m = RE_STATES.findall(out)
            if "No error has been found" not in out or not m:
                # deadlock (a line no action consumes) or an evaluation error: harness/spec fault
                raise Broken(f"trace validation of {trace} did not complete (rc={rc}):\n{out[-3000:]}")
            if int(m[-1][1]) != len(lines) + 1:
                raise Broken(f"trace validation of {trace}: {m[-1][1]} states for {len(lines)} lines")
            if count:
                ctx.trace_states += int(m[-1][1])
                ctx.events += len(lines)
                for ln in lines:
                    if is_reset(ln):
                        ctx.traces += 1
                        _note_case(ctx, ln)
            seen = set()
            for inv, lno in RE_VIOL.findall(out):
                lno = int(lno)
                start = lno - 1
                while start > 0 and not is_reset(lines[start]):
                    start -= 1
                if (inv, start) in seen:
                    continue        # one report per (invariant, case)
                seen.add((inv, start))
                end = lno
                while end < len(lines) and not is_reset(lines[end]):
                    end += 1
                case = json.loads(lines[start]).get("case", "{}")
                raw.append({"inv": inv, "line": lno - start, "case": case,
                            "event": lines[lno - 1].strip()[:2000],
                            "excerpt": [x.strip()[:600] for x in lines[start:min(end, start + 40)]]})
    return raw


def _note_case(ctx, reset_line):
    try:
        c = json.loads(json.loads(reset_line)["case"])
    except Exception:
        return
    cid = c.get("id") or hashlib.sha1(reset_line.encode()).hexdigest()[:12]
    nontrivial = bool(c.get("script")) or c.get("nontrivial", True)
    if nontrivial:
        ctx.case_ids.add(cid)
    if len(ctx.samples) < 4 or (len(ctx.samples) < 8 and hash(cid) % 997 == 0):
        s = dict(c)
        if isinstance(s.get("script"), list) and len(s["script"]) > 12:
            s["script"] = s["script"][:12] + ["... %d more ops" % (len(s["script"]) - 12)]
        ctx.samples.append(s)


# --------------------------------------------------------------------------
# violations: confirm by re-execution, classify against known findings

def load_known():
    p = os.path.join(VERIF, "known_findings.json")
    if not os.path.exists(p):
        return []
    return json.load(open(p)).get("findings", [])


def match_known(pid, v, case):
    for k in load_known():
        if k.get("status") != "open" or not re.fullmatch(k.get("property", ""), pid):
            continue
        if k.get("invariant") and not re.fullmatch(k["invariant"], v["inv"]):
            continue
        ok = True
        for key, pat in (k.get("case_match") or {}).items():
            val = case.get(key)
            sval = json.dumps(val) if not isinstance(val, str) else val
            if not re.fullmatch(pat, sval):
                ok = False
                break
        if ok and k.get("event_match"):
            if not re.search(k["event_match"], v.get("event", "")):
                ok = False
        if ok:
            return k
    return None


MAX_CONFIRM = 400     # violating cases re-executed per check run
MAX_REPORT = 25       # VIOLATION lines printed per check run


def handle_violations(ctx, binpath, module, invariants, raw):
    """Re-execute violating cases in one batch; a violation counts only if the
    same invariant fails again on the re-executed case."""
    if not raw:
        return
    ctx.extra["raw_violating_cases"] = ctx.extra.get("raw_violating_cases", 0) + len(raw)
    # known findings first (cheap), then confirm the rest
    todo = []
    seen_known = set()
    for v in raw:
        try:
            case = json.loads(v["case"])
        except Exception:
            raise Broken("violating trace has no parsable case descriptor")
        v["_case"] = case
        k = match_known(ctx.pid, v, case)
        v["_known"] = k
        todo.append(v)
    if len(todo) > MAX_CONFIRM:
        # keep every distinct invariant represented, sample the rest evenly
        step = len(todo) / MAX_CONFIRM
        pick = {int(i * step) for i in range(MAX_CONFIRM)}
        first = {}
        for i, v in enumerate(todo):
            first.setdefault((v["inv"], (v["_known"] or {}).get("id")), i)
        pick |= set(first.values())
        ctx.notes.append(f"{len(todo)} violating cases; re-executed a sample of {len(pick)}")
        todo = [v for i, v in enumerate(todo) if i in pick]
    # re-execute in one batch; a case that takes the process down does so again: it is marked, and the batch
    # continues behind it in a fresh process
    remaining = [v["case"] for v in todo]
    retraces = []
    stamp = f"{len(ctx.violations)}-{int(time.time()*1000)%100000}"
    while remaining:
        casefile = ctx.path(f"confirm-{stamp}-{len(retraces)}.jsonl")
        open(casefile, "w").write("\n".join(remaining) + "\n")
        retrace = casefile[:-6] + ".ndjson"
        retraces.append(retrace)
        try:
            vh(binpath, ["run-cases", "-cases", casefile, "-out", retrace])
            remaining = []
        except Crashed as c:
            mark_crash(retrace, str(c))
            started = sum(1 for ln in open(retrace) if '"ev":"reset"' in ln)
            remaining = remaining[max(started, 1):]
        except Broken as e:
            raise Broken("re-execution of violating cases failed: " + str(e)[:1500])
    again = validate_traces(ctx, module, invariants, retraces, count=False)
    confirmed = {(a["inv"], a["case"]) for a in again}
    for v in todo:
        case = v["_case"]
        if (v["inv"], v["case"]) not in confirmed:
            ctx.unconfirmed.append({"inv": v["inv"], "case_id": case.get("id", ""), "why": "not reproduced on re-execution"})
            continue
        k = v["_known"]
        if k is not None:
            if k["id"] not in seen_known:
                seen_known.add(k["id"])
                print(f"KNOWN-FINDING: property={ctx.pid} {k['id']}: {k['what']}", flush=True)
            if len(ctx.known) < 50:
                ctx.known.append({"finding": k["id"], "inv": v["inv"], "case_id": case.get("id", "")})
            ctx.extra["known_finding_cases"] = ctx.extra.get("known_finding_cases", 0) + 1
            continue
        h = hashlib.sha1((v["inv"] + v["case"]).encode()).hexdigest()[:12]
        replay = os.path.join(OUT, f"{ctx.pid}-{h}.json")
        ctx.violations.append({"inv": v["inv"], "replay": replay, "case_id": case.get("id", "")})
        if len(ctx.violations) <= MAX_REPORT:
            json.dump({"property": ctx.pid, "invariant": v["inv"], "trace_spec": module, "case": case,
                       "line_in_case": v["line"], "event": v["event"], "trace_excerpt": v["excerpt"]},
                      open(replay, "w"), indent=1)
            print(f"VIOLATION property={ctx.pid} replay={replay}", flush=True)
            log(f"  invariant {v['inv']} at line {v['line']} of case {case.get('id','?')}: {v['event'][:300]}")
    if len(ctx.violations) > MAX_REPORT:
        log(f"  ... {len(ctx.violations)} confirmed violating cases in total (first {MAX_REPORT} written to {OUT})")


def write_evidence(ctx, level, rule, assumptions, extra_cov=None):
    cov = {
        "states": max(ctx.mc_states + ctx.trace_states, 1),
        "transitions": max(ctx.mc_transitions + ctx.trace_states, 1),
        "traces_validated_against_impl": ctx.traces,
        "samples": ctx.samples[:8] or [{"note": "no case recorded"}],
        "evaluations": max(ctx.traces, 1),
        "distinct_nontrivial": len(ctx.case_ids),
        "rule": rule,
        "trace_events_validated": ctx.events,
        "model_states": ctx.mc_states,
        "model_runs": ctx.mc_runs,
        "trace_spec_states": ctx.trace_states,
        "exhaustive": ctx.exhaustive,
        "known_findings_hit": ctx.known[:20],
        "unconfirmed": ctx.unconfirmed[:20],
        "notes": ctx.notes,
    }
    cov.update(ctx.extra)
    if extra_cov:
        cov.update(extra_cov)
    ev = {
        "property_id": ctx.pid,
        "tier": ctx.tier,
        "seed": ctx.seed,
        "level": level,
        "coverage": cov,
        "assumptions": assumptions,
        "wall_s": round(time.time() - ctx.t0, 1),
        "violations": len(ctx.violations),
    }
    json.dump(ev, open(os.path.join(EVID, f"{ctx.pid}.json"), "w"), indent=1)
